"""Discharge obligations: one SMT-LIB query per obligation, each in its own solver subprocess under a hard kill."""
import os
import subprocess
import tempfile
import time
import hashlib
from concurrent.futures import ThreadPoolExecutor
from z3 import Solver, Not, BoolVal
from .engine import unfoldings

Z3 = 'z3-new'
CVC5 = '/usr/bin/cvc5'


def to_smt2(ob, axioms=(), rounds=2, small=False):
    so = Solver()
    base = list(ob.small if small else ob.hyps) + list(ob.extra or []) + [Not(ob.goal)] + list(axioms)
    so.add(*base)
    uf = unfoldings(base, rounds=rounds, opaque=getattr(ob, 'opaque', ()))
    so.add(*uf)
    return so.to_smt2()


WALL_FACTOR = 8      # a solver budget is a CPU-time budget (ulimit -t); the wall clock cap is this many times larger, so that a busy
#                      machine (other checks running on the same cores) does not turn proved obligations into timeouts


def _run(cmd, timeout):
    t0 = time.time()
    cpu = max(1, int(timeout))
    cmd = ['/bin/sh', '-c', f'ulimit -t {cpu}; exec "$0" "$@"'] + list(cmd)
    try:
        p = subprocess.run(cmd, capture_output=True, text=True, timeout=timeout * WALL_FACTOR + 5)
        out = (p.stdout or '').strip().splitlines()
        first = out[0].strip() if out else ''
        if first in ('sat', 'unsat', 'unknown'):
            return first, time.time() - t0, ''
        return 'unknown', time.time() - t0, (p.stdout + p.stderr)[:300]
    except subprocess.TimeoutExpired:
        return 'timeout', time.time() - t0, ''


def solve_text(txt, timeout, workdir, tag, try_cvc5=True, both=False):
    path = os.path.join(workdir, tag + '.smt2')
    with open(path, 'w') as f:
        f.write(txt)
    # stage 1: z3 with a short budget (almost every obligation is discharged in milliseconds);
    # stage 2: cvc5 with the full budget; stage 3: z3 again with the full budget and another seed
    short = min(3, timeout)
    r, dt, err = _run([Z3, '-smt2', f'-T:{int(short) * WALL_FACTOR}', path], short)
    res = dict(verdict=r, solver='z3-5.1.0', time=dt, err=err)
    if (r in ('unknown', 'timeout') and try_cvc5) or both:
        p2 = os.path.join(workdir, tag + '.cvc5.smt2')
        with open(p2, 'w') as f:
            f.write('(set-logic ALL)\n' + txt)
        r2, dt2, err2 = _run([CVC5, '--strings-exp', f'--tlimit={int(timeout * 1000) * WALL_FACTOR}', p2], timeout)
        res['cvc5'] = dict(verdict=r2, time=dt2, err=err2)
        if r in ('unknown', 'timeout') and r2 in ('sat', 'unsat'):
            res.update(verdict=r2, solver='cvc5-1.0.3', time=dt + dt2)
        elif both and r in ('sat', 'unsat') and r2 in ('sat', 'unsat') and r != r2:
            res['disagree'] = True
        try:
            os.unlink(p2)
        except OSError:
            pass
    if res['verdict'] in ('unknown', 'timeout') and timeout > short:
        r3, dt3, err3 = _run([Z3, '-smt2', f'-T:{int(timeout) * WALL_FACTOR}', 'smt.random_seed=7', 'sat.random_seed=7', path], timeout)
        res['z3_retry'] = dict(verdict=r3, time=dt3)
        if r3 in ('sat', 'unsat'):
            res.update(verdict=r3, solver='z3-5.1.0(retry)', time=res['time'] + dt3)
        else:
            res['time'] += dt3
    try:
        os.unlink(path)
    except OSError:
        pass
    return res


def discharge_texts(items, timeout=10, jobs=16, both=False):
    """items: dicts with name, fn, kind, line, goal, nhyps, smt2 (text or None)"""
    workdir = tempfile.mkdtemp(prefix='pyvc-')
    results = [None] * len(items)

    def work(i):
        it = items[i]
        if it.get('smt2') is None:
            r = dict(verdict='unknown', solver='-', time=0.0, err='serialisation failed')
        else:
            r = None
            if it.get('smt2_small'):        # fewer hypotheses first: only `unsat` counts there
                r0, dt0, _ = _run([Z3, '-smt2', f'-T:{3 * WALL_FACTOR}', _write(workdir, f'q{i}s', it['smt2_small'])], 3)
                if r0 == 'unsat':
                    r = dict(verdict='unsat', solver='z3-5.1.0(small context)', time=dt0, err='')
            if r is None:
                r = solve_text(it['smt2'], timeout, workdir, f'q{i}', both=both)
        r.update(name=it['name'], fn=it['fn'], kind=it['kind'], line=it['line'], goal=it['goal'], nhyps=it['nhyps'])
        v = r['verdict']
        r['status'] = 'proved' if v == 'unsat' else ('refuted' if v == 'sat' else 'undecided')
        return i, r
    with ThreadPoolExecutor(max_workers=jobs) as ex:
        for i, r in ex.map(work, range(len(items))):
            results[i] = r
    import shutil
    shutil.rmtree(workdir, ignore_errors=True)       # query files of every stage (nothing of a finished run is kept under /tmp)
    return results


def _write(workdir, tag, txt):
    path = os.path.join(workdir, tag + '.smt2')
    with open(path, 'w') as f:
        f.write(txt)
    return path


def serialise(obligs, rounds=2):
    out = []
    for ob in obligs:
        try:
            txt = to_smt2(ob, (), rounds)
            small = to_smt2(ob, (), rounds, small=True) if getattr(ob, 'small', None) is not None else None
        except Exception:
            txt, small = None, None
        out.append(dict(name=ob.name, fn=ob.fn, kind=ob.kind, line=ob.line, goal=str(ob.goal)[:400], nhyps=len(ob.hyps), smt2=txt, smt2_small=small))
    return out


def discharge(obligs, axioms=(), timeout=10, jobs=16, both=False, rounds=2, keep_text=False):
    """returns list of dict(name, verdict in proved|refuted|undecided, solver, time)"""
    workdir = tempfile.mkdtemp(prefix='pyvc-')
    texts = []
    for i, ob in enumerate(obligs):
        try:
            texts.append(to_smt2(ob, axioms, rounds))
        except Exception as e:      # serialisation failure: undecided, never proved
            texts.append(None)
    results = [None] * len(obligs)
    smalls = []         # serialised in this (the only) thread that touches the z3 API
    for ob in obligs:
        try:
            smalls.append(to_smt2(ob, axioms, rounds, small=True) if getattr(ob, 'small', None) is not None else None)
        except Exception:
            smalls.append(None)

    def work(i):
        if texts[i] is None:
            return i, dict(verdict='unknown', solver='-', time=0.0, err='serialisation failed')
        tag = f'q{i}'
        if smalls[i] is not None:
            r0, dt0, _ = _run([Z3, '-smt2', '-T:3', _write(workdir, tag + 's', smalls[i])], 3)
            if r0 == 'unsat':
                return i, dict(verdict='unsat', solver='z3-5.1.0(small context)', time=dt0, err='')
        return i, solve_text(texts[i], timeout, workdir, tag, both=both)
    with ThreadPoolExecutor(max_workers=jobs) as ex:
        for i, r in ex.map(work, range(len(obligs))):
            v = r['verdict']
            r['name'] = obligs[i].name
            r['fn'] = obligs[i].fn
            r['kind'] = obligs[i].kind
            r['line'] = obligs[i].line
            r['status'] = 'proved' if v == 'unsat' else ('refuted' if v == 'sat' else 'undecided')
            r['goal'] = str(obligs[i].goal)[:400]
            r['nhyps'] = len(obligs[i].hyps)
            if keep_text:
                r['smt2'] = texts[i]
            results[i] = r
    import shutil
    shutil.rmtree(workdir, ignore_errors=True)       # query files of every stage (nothing of a finished run is kept under /tmp)
    return results

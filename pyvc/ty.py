"""pyvc types and their SMT sorts (DESIGN 2.3).

Lists are (array, length) pairs in a datatype; tuples are datatypes; objects and
heap lists are integer references into per-field / per-element-type arrays.
"""
import itertools
from z3 import (IntSort, RealSort, BoolSort, StringSort, ArraySort, Datatype, Const, K,
                IntVal, RealVal, BoolVal, StringVal, Store, Select, If, And, Or, Not, ForAll, Exists,
                Implies, Int)


class T:
    def __init__(s, k, *a):
        s.k, s.a = k, a

    def __eq__(s, o):
        return isinstance(o, T) and (s.k, s.a) == (o.k, o.a)

    def __hash__(s):
        return hash((s.k, s.a))

    def __repr__(s):
        return s.k + (str(list(s.a)) if s.a else '')


INT, REAL, BOOL, STR = T('int'), T('real'), T('bool'), T('str')
NONE = T('none')
FP = T('fp')
VAL = T('val')               # an opaque Python value (only equality and formatting are used)
FILE = T('file')
PYVAL = T('pyval')           # a dynamically typed Python value (used where the code tests types with isinstance: C09)                 # IEEE-754 binary64 (used only where rounding / NaN behaviour is the property)
TRANS = T('trans')            # a transition tuple (label|probability, target): see DESIGN 2.3 / engine docstring


def TUP(*ts):
    return T('tup', *ts)


def PAIR(a, b):
    return TUP(a, b)


def LIST(e):
    return T('list', e)


def REF(c='obj'):
    return T('ref', c)


def LREF(e):
    return T('lref', e)


def ARR(i, e):
    return T('arr', i, e)


def OPT(e):
    return T('opt', e)


def DICT(k, v):
    return T('dict', k, v)


RECS = {}        # record name -> [(key, T)]  (a dict with a fixed set of string keys)


def REC(name, fields=None):
    if fields is not None:
        RECS[name] = list(fields)
    return T('rec', name)


def ODICT(v):
    """insertion-ordered dict with string keys: (keys in order, presence, value)"""
    return T('odict', v)


_sorts = {}
_acc = {}     # type -> constructor / accessor functions (names are unique per datatype)


class _S:
    """view of a datatype through generic accessor names (mk, arr, len, isnone, val, has, f0..)"""

    def __init__(s, t):
        s.__dict__.update(_acc[t])


def S(t):
    sort(t)
    return _S(t)
_names = itertools.count()


def sort(t):
    if t in _sorts:
        return _sorts[t]
    k = t.k
    if k in ('int', 'ref', 'lref'):
        r = IntSort()
    elif k == 'real':
        r = RealSort()
    elif k in ('bool', 'none'):
        r = BoolSort()
    elif k == 'str':
        r = StringSort()
    elif k == 'fp':
        from z3 import Float64
        r = Float64()
    elif k == 'val':
        from z3 import DeclareSort
        r = DeclareSort('Val')
    elif k == 'file':
        r = IntSort()
    elif k == 'pyval':
        d = Datatype('PyVal')
        d.declare('pI', ('iv', IntSort()))
        d.declare('pF', ('fv', RealSort()))
        d.declare('pS', ('sv', StringSort()))
        d.declare('pB', ('bv', BoolSort()))
        d.declare('pN')
        d.declare('pT', ('tlen', IntSort()), ('t0', d), ('t1', d))     # a tuple: its length and its first two slots
        d.declare('pL', ('lref', IntSort()))                          # a list object (reference into the PyVal list heap)
        d.declare('pD', ('dref', IntSort()))                          # a dict object
        d.declare('pO', ('oid', IntSort()))                           # anything else
        r = d.create()
    elif k == 'trans':
        d = Datatype('Trans')
        d.declare('mkT', ('lab', StringSort()), ('prob', RealSort()), ('tgt', IntSort()))
        r = d.create()
    elif k == 'tup':
        ss = [sort(x) for x in t.a]
        n = next(_names)
        d = Datatype(f'Tup{n}')
        d.declare(f'mkTup{n}', *[(f'f{i}_{n}', x) for i, x in enumerate(ss)])
        r = d.create()
        _acc[t] = dict(mk=getattr(r, f'mkTup{n}'), **{f'f{i}': getattr(r, f'f{i}_{n}') for i in range(len(ss))})
    elif k == 'list':
        s0 = sort(t.a[0])
        n = next(_names)
        d = Datatype(f'List{n}')
        d.declare(f'mkList{n}', (f'arr{n}', ArraySort(IntSort(), s0)), (f'len{n}', IntSort()))
        r = d.create()
        _acc[t] = dict(mk=getattr(r, f'mkList{n}'), arr=getattr(r, f'arr{n}'), len=getattr(r, f'len{n}'))
    elif k == 'opt':
        s0 = sort(t.a[0])
        n = next(_names)
        d = Datatype(f'Opt{n}')
        d.declare(f'mkOpt{n}', (f'isnone{n}', BoolSort()), (f'val{n}', s0))
        r = d.create()
        _acc[t] = dict(mk=getattr(r, f'mkOpt{n}'), isnone=getattr(r, f'isnone{n}'), val=getattr(r, f'val{n}'))
    elif k == 'arr':
        r = ArraySort(sort(t.a[0]), sort(t.a[1]))
    elif k == 'rec':
        n = next(_names)
        flds = RECS[t.a[0]]
        d = Datatype(f'Rec{n}')
        d.declare(f'mkRec{n}', *[(f'r{n}_{i}', sort(ft)) for i, (_, ft) in enumerate(flds)])
        r = d.create()
        _acc[t] = dict(mk=getattr(r, f'mkRec{n}'), **{f'k_{key}': getattr(r, f'r{n}_{i}') for i, (key, _) in enumerate(flds)})
    elif k == 'odict':
        n = next(_names)
        vs = sort(t.a[0])
        ls = sort(LIST(STR))
        d = Datatype(f'ODict{n}')
        d.declare(f'mkODict{n}', (f'okeys{n}', ls), (f'ohas{n}', ArraySort(StringSort(), BoolSort())), (f'oval{n}', ArraySort(StringSort(), vs)))
        r = d.create()
        _acc[t] = dict(mk=getattr(r, f'mkODict{n}'), keys=getattr(r, f'okeys{n}'), has=getattr(r, f'ohas{n}'), val=getattr(r, f'oval{n}'))
    elif k == 'dict':
        ks, vs = sort(t.a[0]), sort(t.a[1])
        n = next(_names)
        d = Datatype(f'Dict{n}')
        d.declare(f'mkDict{n}', (f'has{n}', ArraySort(ks, BoolSort())), (f'dval{n}', ArraySort(ks, vs)))
        r = d.create()
        _acc[t] = dict(mk=getattr(r, f'mkDict{n}'), has=getattr(r, f'has{n}'), val=getattr(r, f'dval{n}'))
    else:
        raise KeyError(t)
    _sorts[t] = r
    return r


def default(t):
    k = t.k
    if k in ('int', 'ref', 'lref'):
        return IntVal(0)
    if k == 'real':
        return RealVal(0)
    if k in ('bool', 'none'):
        return BoolVal(False)
    if k == 'str':
        return StringVal("")
    if k == 'fp':
        from z3 import FPVal, Float64
        return FPVal(0.0, Float64())
    if k == 'val':
        return Const('val_default', sort(t))
    if k == 'file':
        return IntVal(0)
    if k == 'pyval':
        return sort(t).pN
    if k == 'trans':
        return sort(t).mkT(StringVal(""), RealVal(0), IntVal(0))
    if k == 'tup':
        return S(t).mk(*[default(x) for x in t.a])
    if k == 'list':
        return empty(t)
    if k == 'opt':
        return S(t).mk(BoolVal(True), default(t.a[0]))
    if k == 'arr':
        return K(sort(t.a[0]), default(t.a[1]))
    if k == 'rec':
        return S(t).mk(*[default(ft) for _, ft in RECS[t.a[0]]])
    if k == 'odict':
        return S(t).mk(empty(LIST(STR)), K(StringSort(), BoolVal(False)), K(StringSort(), default(t.a[0])))
    if k == 'dict':
        return S(t).mk(K(sort(t.a[0]), BoolVal(False)), K(sort(t.a[0]), default(t.a[1])))
    raise KeyError(t)


def empty(t):
    return S(t).mk(K(IntSort(), default(t.a[0])), IntVal(0))


def _is_mk(v, t):
    from z3 import is_app
    try:
        return is_app(v) and v.decl().eq(S(t).mk)
    except Exception:
        return False


def L_arr(v, t):
    if _is_mk(v, t):            # accessor of a constructor term: return the component (smaller terms, better E-matching)
        return v.arg(0)
    return S(t).arr(v)


def L_len(v, t):
    if _is_mk(v, t):
        return v.arg(1)
    return S(t).len(v)


def L_mk(t, arr, n):
    return S(t).mk(arr, n)


def L_app(v, t, x):
    return S(t).mk(Store(L_arr(v, t), L_len(v, t), x), L_len(v, t) + 1)


def L_lit(t, xs):
    v = empty(t)
    for x in xs:
        v = L_app(v, t, x)
    return v


def tup_get(v, t, i):
    if _is_mk(v, t):
        return v.arg(i)
    return getattr(S(t), f'f{i}')(v)


def tup_mk(t, vs):
    return S(t).mk(*vs)


def trans_mk(lab=None, prob=None, tgt=None):
    S = sort(TRANS)
    return S.mkT(lab if lab is not None else StringVal(""), prob if prob is not None else RealVal(0), tgt)


def t_lab(v):
    return sort(TRANS).lab(v)


def t_prob(v):
    return sort(TRANS).prob(v)


def t_tgt(v):
    return sort(TRANS).tgt(v)


def opt_none(t):
    return S(t).mk(BoolVal(True), default(t.a[0]))


def opt_some(t, v):
    return S(t).mk(BoolVal(False), v)


_fresh = itertools.count()


def fresh(name, t):
    return Const(f'{name}!{next(_fresh)}', sort(t))


def fresh_int(name):
    return Int(f'{name}!{next(_fresh)}')

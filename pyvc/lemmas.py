"""Lemmas about spec functions, proved by induction as two VCs each (DESIGN 2.3). No lemma is assumed."""
from z3 import Const, ForAll, Implies, And, BoolVal, IntVal, substitute
from .ty import sort, INT, fresh
from .engine import LEMMAS, Oblig

REGISTRY = {}
CALLED = set()     # names of the lemmas instantiated since the last reset (dependency tracking: see deps())


def lemma(name, params, stmt, ind=None, gen=(), pre=None, hints=None):
    """params: [(name, T)]; stmt(*z3 args) -> Bool; ind: name of the induction parameter (Int, >= 0) or None
    for a direct lemma; gen: names of parameters the induction hypothesis is generalised over;
    hints(*args) -> [Bool] extra lemma instances usable in the step proof (each an instance of an earlier lemma)."""
    names = [p for p, _ in params]

    def inst(*args):
        CALLED.add(name)
        guard = []
        if ind is not None:
            guard.append(args[names.index(ind)] >= 0)
        if pre is not None:
            guard.append(pre(*args))
        body = stmt(*args)
        return Implies(And(*guard), body) if guard else body
    LEMMAS[name] = inst
    REGISTRY[name] = dict(params=params, stmt=stmt, ind=ind, gen=tuple(gen), pre=pre, hints=hints)
    return inst


def obligations(name):
    L = REGISTRY[name]
    params, stmt, ind, gen, pre, hints = L['params'], L['stmt'], L['ind'], L['gen'], L['pre'], L['hints']
    vs = [fresh(p + '!l', t) for p, t in params]
    names = [p for p, _ in params]
    hyp = [pre(*vs)] if pre is not None else []
    out = []
    if ind is None:
        h = list(hyp) + (hints(*vs) if hints else [])
        out.append(Oblig(f'lemma:{name}', h, stmt(*vs), 'lemma:' + name, 0, 'lemma'))
        return out
    k = names.index(ind)
    base = list(vs)
    base[k] = IntVal(0)
    hb = ([pre(*base)] if pre is not None else []) + (hints(*base) if hints else [])
    out.append(Oblig(f'lemma-base:{name}', hb, stmt(*base), 'lemma:' + name, 0, 'lemma'))
    i = vs[k]
    step = list(vs)
    step[k] = i + 1
    ih_body = stmt(*vs)
    if pre is not None:
        ih_body = Implies(pre(*vs), ih_body)
    if gen:
        gvars = [vs[names.index(g)] for g in gen]
        bound = [Const(f'{g}!g', sort(dict(params)[g])) for g in gen]
        ih = ForAll(bound, substitute(ih_body, *zip(gvars, bound)))
    else:
        ih = ih_body
    hs = [i >= 0, ih] + ([pre(*step)] if pre is not None else []) + (hints(*step) if hints else [])
    out.append(Oblig(f'lemma-step:{name}', hs, stmt(*step), 'lemma:' + name, 0, 'lemma'))
    return out


def deps(name):
    """the lemmas whose instances the proof obligations of `name` use as hypotheses (its hints)"""
    CALLED.clear()
    obligations(name)
    return sorted(CALLED - {name})

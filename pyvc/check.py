#!/usr/bin/env python3
"""Per-property check: regenerate every VC of the property's cone from /repo's current working tree, discharge
them, guard against vacuity, run the static obligations, replay / search for failing inputs with the executable
reading of the same contracts, write evidence, and report.

exit 0 held | 1 violation (VIOLATION line) | 2 undecided | 3 checker error   (DESIGN 3)
"""
import argparse
import collections
import json
import os
import subprocess
import sys
import time
import traceback

HERE = os.path.dirname(os.path.abspath(__file__))
VERIF = os.path.dirname(HERE)
sys.path.insert(0, VERIF)
os.chdir(VERIF)

from pyvc.engine import Oblig, Unsupported, ContractError, AXIOMS   # noqa: E402
from pyvc import lemmas as LM   # noqa: E402
from pyvc.registry import make_gen, REPO   # noqa: E402
from pyvc.discharge import discharge   # noqa: E402
from z3 import BoolVal   # noqa: E402

LOCK = os.path.join(VERIF, 'obligations.lock.json')
KNOWN = os.path.join(VERIF, 'known_findings.jsonl')
VENV_PY = '/venv/bin/python'


def load_known():
    out = []
    if os.path.exists(KNOWN):
        for l in open(KNOWN):
            l = l.strip()
            if l and not l.startswith('#'):
                out.append(json.loads(l))
    return out


def gen_obligations(g, P):
    """-> (obligs, function infos, inapplicable [(fn, reason)])"""
    obligs, infos, inapp = [], [], []
    for q in P['functions']:
        c = g.contracts.get(q)
        if c is None:
            inapp.append((q, 'no contract'))
            continue
        try:
            if c.get('virtual'):
                obs, info = g.refinement(q)
            elif c.get('instances'):        # the same function under several ground pre/post pairs (finite domains enumerated)
                obs, info = [], None
                for tag, req, ens in c['instances']:
                    c2 = dict(c)
                    c2['requires'] = list(c.get('requires', [])) + list(req)
                    c2['ensures'] = list(c.get('ensures', [])) + list(ens)
                    g.contracts[q] = c2
                    try:
                        o2, info = g.run(q)
                    finally:
                        g.contracts[q] = c
                    for o in o2:
                        o.name = o.name.replace('/', f'[{tag}]/', 1)
                    obs += o2
                info['n'] = len(obs)
            else:
                obs, info = g.run(q)
            obligs += obs
            infos.append(info)
        except (Unsupported, ContractError) as e:
            inapp.append((q, f'{type(e).__name__}: {e}'))
        except Exception as e:      # encoder crash on changed code: undecided for that function, never a verdict
            inapp.append((q, f'encoder-crash {type(e).__name__}: {e}\n' + traceback.format_exc()[-600:]))
    for ln in P.get('lemmas', []):
        LM.CALLED.clear()
        obs = LM.obligations(ln)
        obligs += obs
        infos.append(dict(name='lemma:' + ln, src_hash='-', contract_hash='-', lines=(0, 0), n=len(obs), lemmas_used=sorted(LM.CALLED - {ln})))
    return obligs, infos, inapp


def _gen_worker(args):
    """runs in a forked child: obligations of one function (or one lemma), serialised to SMT-LIB text"""
    kind, q = args
    from pyvc.discharge import serialise
    g = make_gen()
    if kind == 'fn':
        obs, infos, inapp = gen_obligations(g, dict(functions=[q]))
    else:
        obs, infos, inapp = gen_obligations(g, dict(functions=[], lemmas=[q]))
    return serialise(obs), serialise(canaries(obs)), infos, inapp


def gen_parallel(P, procs=12):
    import multiprocessing as mp
    tasks = [('fn', q) for q in P['functions']] + [('lemma', l) for l in P.get('lemmas', [])]
    ctx = mp.get_context('fork')
    with ctx.Pool(min(procs, max(1, len(tasks)))) as pool:
        parts = pool.map(_gen_worker, tasks, chunksize=1)
        items, cans, infos, inapp = [], [], [], []
        done = set(P.get('lemmas', []))
        while True:
            for a, b, c, d in parts:
                items += a
                cans += b
                infos += c
                inapp += d
            # every lemma a function (or another lemma's proof) uses is proved in THIS run, whether or not the property lists it
            need = sorted({l for i in infos for l in i.get('lemmas_used', [])} - done)
            if not need:
                break
            done |= set(need)
            parts = pool.map(_gen_worker, [('lemma', l) for l in need], chunksize=1)
    return items, cans, infos, inapp


def canaries(obligs):
    """vacuity guard (c): per function and per loop, `False` must not be provable from the hypotheses of EVERY path that
    reaches a return / the end of the loop body (a single infeasible path is normal: sequential ifs on the same test)"""
    groups = {}
    out = []
    for ob in obligs:
        if ob.kind not in ('post', 'inv') or '/inv-init' in ob.name:
            continue
        base = ob.name.split('~')[0]
        if ob.kind == 'inv' and not base.endswith('.0'):
            continue
        if ob.kind == 'post' and not base.endswith('post#0'):
            continue
        key = (ob.fn, base)
        groups.setdefault(key, 0)
        if groups[key] >= 6:
            continue
        groups[key] += 1
        out.append(Oblig('canary:' + ob.name, ob.hyps, BoolVal(False), ob.fn, ob.line, 'canary'))
    return out


def vacuous_groups(cres):
    by = {}
    for r in cres:
        by.setdefault(r['name'].split('~')[0], []).append(r['status'] == 'proved')
    return [k for k, v in by.items() if all(v)]


def run_oracle(prop, tier, seed, known_ids, budget):
    out_dir = os.path.join(VERIF, 'replays')
    os.makedirs(out_dir, exist_ok=True)
    cmd = [VENV_PY, os.path.join(VERIF, 'oracle', 'run.py'), prop, '--tier', tier, '--seed', str(seed), '--repo', REPO, '--out', out_dir]
    env = dict(os.environ)
    env['PYTHONDONTWRITEBYTECODE'] = '1'
    try:
        p = subprocess.run(cmd, capture_output=True, text=True, timeout=budget, env=env)
    except subprocess.TimeoutExpired:
        return dict(error=f'oracle run exceeded {budget}s', evaluations=0, failures=[], known=[], samples=[])
    last = None
    for l in p.stdout.splitlines():
        if l.startswith('{'):
            try:
                last = json.loads(l)
            except ValueError:
                pass
    if last is None:
        return dict(error='oracle produced no report: ' + (p.stderr or p.stdout)[-800:], evaluations=0, failures=[], known=[], samples=[])
    return last


def run_selftest(prop):
    """applies every catalogued change that concerns this property to a scratch copy of /repo (under $TMPDIR, removed at once)
    and runs this property's quick check on it; returns the exit codes"""
    import glob
    import shutil
    import tempfile
    out = dict(seeded={}, benign={}, rule='seeded/<id> (property-breaking, confirmed) must end in exit 1; benign/<id> (behaviour-preserving) must not end in exit 1')
    jobs = []
    for d in sorted(glob.glob(os.path.join(VERIF, 'seeded', '*', 'meta.json'))):
        m = json.load(open(d))
        if (m.get('breaks') or m.get('property')) == prop:
            jobs.append(('seeded', os.path.basename(os.path.dirname(d)), os.path.join(os.path.dirname(d), 'patch.diff')))
    for d in sorted(glob.glob(os.path.join(VERIF, 'benign', '*', 'meta.json'))):
        m = json.load(open(d))
        if prop in m.get('properties', []):
            jobs.append(('benign', os.path.basename(os.path.dirname(d)), os.path.join(os.path.dirname(d), 'patch.diff')))
    for kind, ident, patch in jobs:
        S = tempfile.mkdtemp(prefix='selftest-')
        try:
            for f in glob.glob(os.path.join(REPO, '*.py')):
                shutil.copy(f, S)
            shutil.copytree(os.path.join(REPO, 'inputs'), os.path.join(S, 'inputs'))
            os.makedirs(os.path.join(S, 'outputs'), exist_ok=True)
            if subprocess.run(['patch', '-p1', '-s', '-i', patch], cwd=S, capture_output=True).returncode != 0:
                out[kind][ident] = 'patch does not apply to the current tree'
                continue
            env = dict(os.environ, PYVC_REPO=S, VERIF_TIER='quick')
            p = subprocess.run([sys.executable, os.path.join(VERIF, 'pyvc', 'check.py'), prop, '--tier', 'quick', '--evidence', os.path.join(S, 'evidence.json')],
                               cwd=VERIF, env=env, capture_output=True, text=True, timeout=1800)
            out[kind][ident] = p.returncode
        finally:
            shutil.rmtree(S, ignore_errors=True)
    return out


def main():
    ap = argparse.ArgumentParser()
    ap.add_argument('prop')
    ap.add_argument('--tier', default=os.environ.get('VERIF_TIER', 'quick'))
    ap.add_argument('--relock', action='store_true')
    ap.add_argument('--no-oracle', action='store_true')
    ap.add_argument('--evidence', default=None)
    a = ap.parse_args()
    tier = a.tier if a.tier in ('quick', 'thorough') else 'quick'
    seed = int(os.environ.get('VERIF_SEED', '0') or 0)
    t0 = time.time()
    from contracts.props import PROPS
    prop = a.prop
    P = PROPS[prop]
    ev_path = a.evidence or os.path.join(VERIF, 'evidence', prop + '.json')
    os.makedirs(os.path.dirname(ev_path), exist_ok=True)
    timeout = 20 if tier == 'quick' else 60      # per stage; almost every obligation is decided in the 3 s first stage
    lines = []
    status = 0
    try:
        from pyvc.discharge import discharge_texts
        g = make_gen()
        tg = time.time()
        items, cans, infos, inapp = gen_parallel(P)
        t_gen = time.time() - tg
        tg = time.time()
        res = discharge_texts(items, timeout=timeout, both=(tier == 'thorough'))
        t_dis = time.time() - tg
        tg = time.time()
        cres = discharge_texts(cans, timeout=1, jobs=16)
        t_can = time.time() - tg
    except Exception:
        print('CHECKER-ERROR', prop, traceback.format_exc()[-1500:])
        sys.exit(3)
    # ---- hand-stated SMT-LIB lemmas (string theory; cvc5 back end): each must be unsat
    import tempfile
    from pyvc.discharge import _run, CVC5, Z3
    for item in P.get('smt_lemmas', []):
        name, text = item[0], item[1]
        use_z3 = len(item) > 2 and item[2] == 'z3'
        with tempfile.NamedTemporaryFile('w', suffix='.smt2', delete=False) as f:
            f.write(text)
        if use_z3:
            v, dt, err = _run([Z3, f'-T:{timeout}', f.name], timeout)
        else:
            v, dt, err = _run([CVC5, '--strings-exp', f'--tlimit={timeout * 1000}', f.name], timeout)
        os.unlink(f.name)
        res.append(dict(name=f'smt-lemma:{name}', fn='smt-lemmas', kind='lemma', line=0, verdict=v, solver='z3-5.1.0' if use_z3 else 'cvc5-1.0.3', time=dt, err=err,
                        status='proved' if v == 'unsat' else ('refuted' if v == 'sat' else 'undecided'), goal=text.splitlines()[-2][:300], nhyps=0))
    if P.get('smt_lemmas'):
        infos.append(dict(name='smt-lemmas', src_hash='-', contract_hash='-', lines=(0, 0), n=len(P['smt_lemmas'])))
    # ---- static obligations (labelled static in the evidence)
    statics = []
    for name, fn in P.get('static', []):
        try:
            ok, detail = fn(g.modules)
        except Exception as e:
            ok, detail = None, f'static check crashed: {e}'
        statics.append(dict(name=name, ok=ok, detail=detail))
    # ---- classify
    lock = json.load(open(LOCK)) if os.path.exists(LOCK) else {}
    import re as _re
    norm = lambda nm: _re.sub(r'@\d+', '@L', nm)       # obligation names carry source lines; a shifted line is still the same obligation
    locked = {norm(x) for x in lock.get(prop, [])}
    proved = [r for r in res if r['status'] == 'proved']
    unproved = [r for r in res if r['status'] != 'proved']
    # a function with an unproved safety obligation legitimately has contradictory hypotheses downstream (every safety condition is
    # assumed once it has been demanded): vacuity is a checker error only for functions whose obligations were all discharged
    unproved_fns = {r['fn'] for r in unproved}
    vacuous = [dict(name=k) for k in vacuous_groups(cres) if k.split(':', 1)[-1].split('/')[0].split('[')[0] not in unproved_fns]
    disagree = [r for r in res if r.get('disagree')]
    if a.relock:
        lock[prop] = sorted(r['name'] for r in proved)
        lock.setdefault('__locals__', {})
        for info in infos:
            if info.get('locals_order') is not None and '.' in info['name'] and not info['name'].startswith('lemma:'):
                lock['__locals__'][info['name']] = info['locals_order']
        json.dump(lock, open(LOCK, 'w'), indent=0, sort_keys=True)
        print(f'relocked {prop}: {len(proved)} proved of {len(res)}; unproved: {[r["name"] for r in unproved]}; inapplicable: {inapp}')
    known = [k for k in load_known() if k.get('property') == prop and k.get('status') == 'open']
    # ---- executable contracts on the real code: replay of known findings + witness search
    orc = dict(evaluations=0, failures=[], known=[], samples=[])
    if not a.no_oracle and P.get('oracle', True):
        budget = P.get('oracle_budget', {}).get(tier, 120 if tier == 'quick' else 900)
        orc = run_oracle(prop, tier, seed, [k['id'] for k in known], budget)
    violations = []
    for f in orc.get('failures', []):
        violations.append(('replayed', f))
    for k in orc.get('known', []):
        lines.append(f"KNOWN-FINDING: property={prop} {k['what']}")
    # obligations that are unproved
    refuted_locked = [r for r in unproved if r['status'] == 'refuted' and (norm(r['name']) in locked or not locked)]
    undecided = [r for r in unproved if r not in refuted_locked]
    static_fail = [s for s in statics if s['ok'] is False]
    if not violations:
        for r in refuted_locked:
            path = os.path.join(VERIF, 'replays', f'{prop}-{abs(hash(r["name"])) % 10**8}.json')
            os.makedirs(os.path.dirname(path), exist_ok=True)
            json.dump(dict(property=prop, kind='failed-obligation', obligation=r['name'], function=r['fn'], line=r['line'],
                           solver=r['solver'], verdict=r['verdict'], goal=r['goal'], solver_output=r.get('err', ''),
                           note='obligation proved on the unchanged tree (obligations.lock.json) and refuted (sat) now; the witness search on the real code found no failing input'),
                      open(path, 'w'), indent=1)
            violations.append(('no-input', dict(clause=r['name'], replay=path)))
    if vacuous or disagree or len(res) == 0 or orc.get('error') or any(s['ok'] is None for s in statics):
        status = 3
    for kind, f in violations:
        lines.append(f"VIOLATION property={prop} replay={f['replay']}" + (' no-failing-input-found' if kind == 'no-input' else ''))
    if violations:
        status = 1
    elif status == 0 and (undecided or inapp or static_fail):
        status = 2
    for r in refuted_locked:
        lines.append(f"REFUTED property={prop} obligation={r['name']} solver={r['solver']} verdict={r['verdict']} (proved on the unchanged tree)")
    for r in undecided:
        lines.append(f"UNDECIDED property={prop} obligation={r['name']} solver={r['solver']} verdict={r['verdict']}")
    for s_ in static_fail:
        lines.append(f"UNDECIDED property={prop} static-obligation={s_['name']} ({s_['detail'][:200]})")
    for q, why in inapp:
        lines.append(f"UNDECIDED property={prop} function={q} reason=contract-inapplicable ({why.splitlines()[0][:200]})")
    if status == 3:
        lines.append(f"CHECKER-ERROR property={prop} vacuous={[r['name'] for r in vacuous]} disagree={[r['name'] for r in disagree]} obligations={len(res)} oracle_error={orc.get('error')}")
    # ---- thorough tier: self-test against the committed catalogues (seeded/ must be reported, benign/ must not raise an alarm)
    selftest = None
    if tier == 'thorough' and not os.environ.get('PYVC_REPO') and not os.environ.get('PYVC_NO_SELFTEST'):
        selftest = run_selftest(prop)
        missed = [k for k, v in selftest['seeded'].items() if v != 1]
        alarms = [k for k, v in selftest['benign'].items() if v == 1]
        if missed or alarms:
            lines.append(f"SELFTEST property={prop} seeded changes not reported: {missed}; behaviour-preserving changes reported as violations: {alarms}")
    # ---- evidence
    by_fn = collections.defaultdict(list)
    for r in res:
        by_fn[r['fn']].append(r)
    fns = []
    for info in infos:
        rs = by_fn.get(info['name'], [])
        fns.append(dict(function=info['name'], source_sha256_16=info['src_hash'], contract_sha256_16=info['contract_hash'], lines=list(info['lines']),
                        obligations=len(rs), discharged=sum(r['status'] == 'proved' for r in rs),
                        solver_s_total=round(sum(r['time'] for r in rs), 3), solver_s_max=round(max([r['time'] for r in rs] + [0]), 3),
                        backends=dict(collections.Counter(r['solver'] for r in rs if r['status'] == 'proved'))))
    samples = [dict(obligation=r['name'], kind=r['kind'], hypotheses=r['nhyps'], goal=r['goal'][:300], verdict=r['verdict'], solver=r['solver'], seconds=round(r['time'], 3))
               for r in (unproved[:3] + proved[:: max(1, len(proved) // 5)][:6])]
    evd = dict(
        property_id=prop, tier=tier, seed=seed, level='proof',
        coverage=dict(
            obligations=len(res), discharged=len(proved),
            checker_cmd=f'python3-vt pyvc/check.py {prop} --tier {tier}',
            trusted_base=P.get('trusted_base', []) + ['z3 5.1.0 (z3-new CLI, one subprocess per query)', 'cvc5 1.0.3 (on z3 unknown/timeout' + ('; and on every obligation in this tier' if tier == 'thorough' else '') + ')',
                                                     'pyvc encoder (pyvc/engine.py): reading of Python semantics as listed in assumptions'],
            functions=fns,
            unproved=[dict(obligation=r['name'], verdict=r['verdict'], solver=r['solver']) for r in unproved],
            inapplicable=[dict(function=q, reason=w[:300]) for q, w in inapp],
            vacuity=dict(canaries=len(cres), infeasible_paths=sum(r['status'] == 'proved' for r in cres), vacuous_groups=len(vacuous), rule='per function and loop: `False` must not be provable from the hypotheses of every path reaching a return / the end of the loop body'),
            static_obligations=statics,
            samples=samples,
            solver_s_total=round(sum(r['time'] for r in res), 2),
            phase_wall_s=dict(vc_generation=round(t_gen, 1), discharge=round(t_dis, 1), vacuity_canaries=round(t_can, 1)),
            undecided_clauses=P.get('undecided_clauses', []),
            termination_unproved=P.get('termination_unproved', []),
            termination_proved=P.get('termination_proved', []),
            termination_variants=[dict(obligation=r['name'], verdict=r['verdict']) for r in res if '/variant' in r['name']],
            bounded_standins=[dict(what=P.get('oracle_what', 'executable contracts of the same clauses run on the real code over enumerated / seeded small inputs (bounded: never counted in discharged)'),
                                   bounded=True, evaluations=orc.get('evaluations', 0), distinct_nontrivial=orc.get('distinct', 0),
                                   failures=len(orc.get('failures', [])), samples=orc.get('samples', [])[:3], detail=orc.get('detail', {}))],
            known_findings=[k['what'] for k in orc.get('known', [])],
            lock=dict(locked=len(locked), missing_from_run=sorted(locked - {norm(r['name']) for r in res})[:20]),
            mutation_selftest=selftest,
        ),
        assumptions=P.get('assumptions', []),
        violations=len(violations),
        wall_s=round(time.time() - t0, 2),
        exit_status=status,
    )
    json.dump(evd, open(ev_path, 'w'), indent=1)
    for l in lines:
        print(l)
    print(f'{prop}: {len(proved)}/{len(res)} obligations discharged over {len(infos)} functions/lemmas, {len(statics)} static, oracle evaluations={orc.get("evaluations", 0)}, exit={status}, {time.time() - t0:.1f}s')
    sys.exit(status)


if __name__ == '__main__':
    try:
        main()
    except SystemExit:
        raise
    except BaseException as e:      # noqa -- a crash of the checker (e.g. the repository no longer parses) is never a verdict about the property
        traceback.print_exc()
        prop_ = next((a for a in sys.argv[1:] if not a.startswith('-')), '?')
        print(f'CHECKER-ERROR property={prop_} the checker could not run: {type(e).__name__}: {str(e)[:200]}')
        try:        # an evidence file that says so (schema-valid, level other: nothing was proved)
            ev = next((sys.argv[i + 1] for i, a in enumerate(sys.argv) if a == '--evidence'), os.path.join(VERIF, 'evidence', f'{prop_}.json'))
            json.dump(dict(property_id=prop_, tier=os.environ.get('VERIF_TIER', 'quick') if os.environ.get('VERIF_TIER') in ('quick', 'thorough') else 'quick', seed=int(os.environ.get('VERIF_SEED', '0') or 0),
                           level='other', coverage=dict(explanation=f'the checker crashed before generating obligations: {type(e).__name__}: {str(e)[:300]}', evaluations=0, distinct_nontrivial=0,
                                                        rule='none', samples=['(none: checker crash)']),
                           assumptions=[], wall_s=0.0, violations=0, exit_status=3), open(ev, 'w'), indent=1)
        except Exception:
            pass
        sys.exit(3)

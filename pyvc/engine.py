"""pyvc engine: verification-condition generation from the real Python AST of /repo (DESIGN 2).

Forward symbolic execution of one function at a time against a sidecar contract:
loops are cut by their invariants, calls are replaced by the callee's contract, every
operation that can raise yields a safety obligation, `return` asserts `ensures`, `raise`
asserts the `raises` clause, and the frame (`modifies`) is asserted on every exit.

Semantics assumed (each is listed in the evidence as an assumption):
  * int = mathematical integers; float = real (A-REAL) unless a contract says otherwise;
  * lists held in object fields are heap objects (references, aliasing, in-place mutation);
    lists built locally are values while they have a single access path (value model);
  * a 2-tuple (x, y) whose second component is an int is a *transition* value
    Trans(lab, prob, tgt): x goes to `lab` when it is a str and to `prob` when it is a
    number; `t[0]` reads the slot the contract's `slot0` names ('lab' on player states,
    'prob' on probabilistic states), `t[1]` reads `tgt`;
  * `for x in L` over a heap list re-reads the list's current length at each step
    (CPython list iterator).
"""
import ast
import os
import sys
import hashlib
import itertools
from z3 import (And, Or, Not, Implies, If, ForAll, Exists, IntVal, RealVal, BoolVal, StringVal, ToReal, ToInt,
                Store, Select, K, Int, Const, substitute, is_app, is_quantifier, is_var, is_expr, Function,
                IntSort, RealSort, BoolSort, is_true, is_false, simplify, Concat, Length, is_int_value,
                is_const, Z3_OP_UNINTERPRETED)
from .ty import *
from . import ty as Ty


class Unsupported(Exception):
    pass


class ContractError(Exception):
    pass


# ------------------------------------------------------------------ spec functions, lemmas
SPEC = {}     # name -> dict(f=z3 func, args=[T], ret=T, unfold=callable|None)
LEMMAS = {}   # name -> callable(*z3 args) -> z3 Bool   (instances; each must be proved separately, see lemmas.py)
AXIOMS = {}   # name -> z3 Bool (quantified facts added to every query of functions that `use_axioms` them)


def spec(name, argts, rett, unfold=None):
    f = Function(name, *[sort(a) for a in argts], sort(rett))
    SPEC[name] = dict(f=f, args=list(argts), ret=rett, unfold=unfold)
    return f


def ground(e, cache=None):
    """no bound (de Bruijn) variable occurs in e; memoised per call on the AST id (ids are only unique among live terms, so
    the cache must not outlive the formulas it was built for)"""
    if cache is None:
        cache = {}
    k = e.get_id()
    r = cache.get(k)
    if r is None:
        if is_var(e) or is_quantifier(e):
            r = False
        else:
            r = all(ground(c, cache) for c in e.children())
        cache[k] = r
    return r


def unfoldings(fmls, rounds=2, opaque=()):
    """fuel-1: for each ground application F(args) occurring in fmls (also under binders) add F's defining equation."""
    seen = set()
    visited = set()
    gcache = {}
    keep = []           # keeps every visited term alive so that ids stay unique during this call
    out = []

    def walk(e):
        if not is_expr(e) or is_var(e):
            return
        k = e.get_id()
        if k in visited:
            return
        visited.add(k)
        keep.append(e)
        if is_quantifier(e):
            walk(e.body())
            return
        if is_app(e):
            nm = e.decl().name()
            if nm in SPEC and nm not in opaque and SPEC[nm]['unfold'] is not None and k not in seen and ground(e, gcache):
                seen.add(k)
                out.append(SPEC[nm]['unfold'](*e.children()))
            for c in e.children():
                walk(c)
    cur = list(fmls)
    for _ in range(rounds):
        n0 = len(out)
        for f in cur:
            walk(f)
        cur = out[n0:]
        if not cur:
            break
    return out


def _register_io_specs():
    from z3 import StringSort
    if 'CONTENT' not in SPEC:
        SPEC['CONTENT'] = dict(f=Function('CONTENT', StringSort(), StringSort()), args=[STR], ret=STR, unfold=None)
    if 'EVAL' not in SPEC:
        SPEC['EVAL'] = dict(f=Function('EVAL', StringSort(), sort(PYVAL)), args=[STR], ret=PYVAL, unfold=None)


_register_io_specs()


# ------------------------------------------------------------------ symbolic state
class St:
    def __init__(s):
        s.env = {}
        s.heap = {}      # field -> z3 array (Int -> sort(fieldtype))
        s.lheap = {}     # element T -> z3 array (Int -> List sort)
        s.alloc_o = None
        s.alloc_l = None
        s.pc = []
        s.old = None     # entry snapshot (for old())
        s.unbound = set()  # locals that may be unbound
        s.calls = ()       # names of the contracted callees applied so far on this path (for `calls_exactly`)

    def clone(s):
        t = St()
        t.env = dict(s.env)
        t.heap = dict(s.heap)
        t.lheap = dict(s.lheap)
        t.alloc_o, t.alloc_l = s.alloc_o, s.alloc_l
        t.pc = list(s.pc)
        t.old = s.old
        t.unbound = set(s.unbound)
        t.calls = s.calls
        return t


class Oblig:
    __slots__ = ('name', 'hyps', 'goal', 'fn', 'line', 'kind', 'extra', 'opaque', 'small')

    def __init__(s, name, hyps, goal, fn, line, kind, extra=None, opaque=()):
        s.name, s.hyps, s.goal, s.fn, s.line, s.kind, s.extra, s.opaque = name, hyps, goal, fn, line, kind, extra or [], tuple(opaque)
        s.small = None      # optional subset of hyps tried first (a proof from fewer hypotheses is a proof; a `sat` there means nothing)


# ------------------------------------------------------------------ module loading
class Module:
    def __init__(s, name, path):
        s.name, s.path = name, path
        s.src = open(path).read()
        s.tree = ast.parse(s.src)
        s.consts = {}
        for n in s.tree.body:
            if isinstance(n, ast.Assign) and len(n.targets) == 1 and isinstance(n.targets[0], ast.Name):
                try:
                    s.consts[n.targets[0].id] = ast.literal_eval(n.value)
                except Exception:
                    try:   # constants built from earlier constants (FOUR_SPACES + FOUR_SPACES)
                        s.consts[n.targets[0].id] = eval(compile(ast.Expression(n.value), '<c>', 'eval'), {}, dict(s.consts))
                    except Exception:
                        pass

    def find(s, qual):
        body = s.tree.body
        node = None
        for p in qual.split('.'):
            hits = [n for n in body if isinstance(n, (ast.ClassDef, ast.FunctionDef)) and n.name == p]
            if not hits:
                return None
            # the name must be bound exactly once in its scope: a second def, or an assignment / import that rebinds it
            # (f = cache(f)), would make the text read here differ from the function that runs
            others = [n for n in body if n is not hits[0] and p in Module.bound_names(n)]
            node = hits[0]
            if others:
                node._rebound = others[0].lineno
            body = node.body
        return node

    @staticmethod
    def bound_names(n):
        if isinstance(n, (ast.FunctionDef, ast.ClassDef, ast.AsyncFunctionDef)):
            return {n.name}
        out = set()
        if isinstance(n, (ast.Assign, ast.AugAssign, ast.AnnAssign)):
            for t in (n.targets if isinstance(n, ast.Assign) else [n.target]):
                out |= {x.id for x in ast.walk(t) if isinstance(x, ast.Name)}
        elif isinstance(n, (ast.Import, ast.ImportFrom)):
            out |= {(a.asname or a.name).split('.')[0] for a in n.names}
        elif isinstance(n, (ast.If, ast.Try, ast.With, ast.For, ast.While)):
            for x in ast.walk(n):
                if x is not n and isinstance(x, (ast.FunctionDef, ast.ClassDef, ast.Assign, ast.AugAssign, ast.AnnAssign, ast.Import, ast.ImportFrom)):
                    out |= Module.bound_names(x)
        return out

    def segment(s, node):
        return ast.get_source_segment(s.src, node)


def sha(x):
    return hashlib.sha256(x.encode()).hexdigest()[:16]


# ------------------------------------------------------------------ the generator
class VCGen:
    def __init__(s, modules, contracts, fields, class_tags=None):
        s.modules = modules          # name -> Module
        s.contracts = contracts      # qualname -> contract dict
        s.fields = fields            # field name -> T
        s.class_tags = class_tags or {}
        s.obligs = []
        s.pol = 0
        s.binders = 0
        s.specmode = False
        s.notes = []

    # ---------------------------------------------------------------- helpers
    def oblige(s, st, name, goal, line=0, kind='safe', extra=None):
        cnt = s.cur['_names'].get(name, 0)
        s.cur['_names'][name] = cnt + 1
        nm = f"{s.cur['name']}/{name}" + (f"~{cnt}" if cnt else "")
        s.obligs.append(Oblig(nm, list(st.pc), goal, s.cur['name'], line, kind, extra, tuple(s.cur.get('opaque', ())) + (tuple(s.cur.get('opaque_post', ())) if kind in ('post', 'frame', 'raises') or name.startswith('hint-return') else ())))

    def safe(s, st, what, goal, line):
        if s.specmode:
            return
        if is_true(simplify(goal)):
            return
        s.oblige(st, f'safe:{what}@{line}', goal, line, 'safe')
        st.pc.append(goal)

    def parse(s, txt):
        try:
            return ast.parse(txt.strip(), mode='eval').body
        except SyntaxError as e:
            raise ContractError(f'cannot parse contract expression {txt!r}: {e}')

    def spec_eval(s, txt, st, pol):
        """evaluate a contract expression; pol=+1 goal (skolemise forall), -1 hypothesis (skolemise exists)"""
        sv_pol, sv_mode = s.pol, s.specmode
        s.pol, s.specmode = pol, True
        try:
            v, t = s.ev(s.parse(txt) if isinstance(txt, str) else txt, st)
        finally:
            s.pol, s.specmode = sv_pol, sv_mode
        if t != BOOL:
            raise ContractError(f'contract expression is not boolean: {txt}')
        return v

    def assume(s, st, txt):
        st.pc.append(s.spec_eval(txt, st, -1))

    def use_lemma(s, st, txt):
        """`use` entries are instances of separately proved lemmas, possibly under forall(...) binders; anything else
        is rejected (an arbitrary assumed formula would be an unchecked axiom)"""
        e = s.parse(txt)
        x = e
        while isinstance(x, ast.Call) and isinstance(x.func, ast.Name) and x.func.id == 'forall':
            x = x.args[-1]
        if not (isinstance(x, ast.Call) and isinstance(x.func, ast.Name) and x.func.id in LEMMAS):
            raise ContractError(f'`use` entry is not a lemma instance: {txt}')
        s.cur.setdefault('_lemmas_used', set()).add(x.func.id)
        st.pc.append(s.spec_eval(e, st, -1))

    def hint(s, st, txt, tag, line):
        """an intermediate assertion: proved as its own obligation, then available as a hypothesis"""
        s.oblige(st, tag, s.spec_eval(txt, st, 1), line, 'hint')
        st.pc.append(s.spec_eval(txt, st, -1))

    def coerce(s, v, t, want, st=None):
        if t == want or want is None:
            return v, t
        if t == LIST(NONE) and v is not None and want.k == 'list' and want.a[0].k == 'opt' and st is not None:
            r = fresh('nones', want)
            k = Int(f'k!n{next(Ty._fresh)}')
            st.pc.append(L_len(r, want) == L_len(v, t))
            st.pc.append(ForAll([k], Implies(And(0 <= k, k < L_len(r, want)), L_arr(r, want)[k] == opt_none(want.a[0]))))
            return r, want
        if want == REAL and t == INT:
            return ToReal(v), REAL
        if want == REAL and t == FP:
            from z3 import fpToReal, fpLT, fpGT, FPVal, Float64
            r_ = fpToReal(v)
            if st is not None:      # valid facts about fp.to_real that spare the solver the bit-level argument for the common bounds
                st.pc.append(And(Implies(fpGT(v, FPVal(0.0, Float64())), r_ > 0), Implies(fpLT(v, FPVal(1.0, Float64())), r_ < 1),
                                 Implies(fpLT(v, FPVal(0.0, Float64())), r_ < 0), Implies(fpGT(v, FPVal(1.0, Float64())), r_ > 1)))
            return r_, REAL
        if want == FP and t in (INT, REAL):
            return s.to_fp(v, t), FP
        if want == REAL and t == BOOL:
            return If(v, RealVal(1), RealVal(0)), REAL
        if want == INT and t == BOOL:
            return If(v, IntVal(1), IntVal(0)), INT
        if want.k == 'opt':
            if t == NONE:
                return opt_none(want), want
            if t == want.a[0]:
                return opt_some(want, v), want
            if t.k == 'list' and want.a[0].k == 'list' and v is None:
                return opt_some(want, empty(want.a[0])), want
        if want.k == 'list' and v is None:
            return empty(want), want
        if want.k == 'dict' and v is None:
            return default(want), want
        if want.k == 'odict' and v is None:
            return default(want), want
        if want.k == 'rec' and t.k == 'reclit':
            flds = Ty.RECS[want.a[0]]
            if set(v) != {k for k, _ in flds}:
                raise Unsupported(f'dict literal keys {sorted(v)} differ from the record {want.a[0]}')
            return Ty.S(want).mk(*[s.coerce(v[k][0], v[k][1], ft, st)[0] for k, ft in flds]), want
        if want == VAL and t != VAL:
            return s.to_val(v, t), VAL
        if t.k == 'list' and t.a[0].k == 'lref' and want.k == 'list' and want.a[0] == LIST(t.a[0].a[0]) and st is not None:
            # a list of list references where a list of list values is expected (the callee only reads): element-wise content
            e0 = t.a[0].a[0]
            r = fresh('deref', want)
            k = Int(f'k!d{next(Ty._fresh)}')
            st.pc.append(L_len(r, want) == L_len(v, t))
            st.pc.append(ForAll([k], Implies(And(0 <= k, k < L_len(v, t)), L_arr(r, want)[k] == st.lheap[e0][L_arr(v, t)[k]])))
            return r, want
        if want.k == 'tup' and t.k == 'tup' and len(want.a) == len(t.a):
            return tup_mk(want, [s.coerce(tup_get(v, t, i), t.a[i], want.a[i], st)[0] for i in range(len(t.a))]), want
        if want.k == 'lref' and t.k == 'lref':
            return v, want
        if want.k == 'ref' and t.k == 'ref':       # subclass instance where the base class is expected (same integer reference)
            return v, want
        raise Unsupported(f'cannot coerce {t} to {want}')

    def to_fp(s, v, t):
        from z3 import fpRealToFP, fpSignedToFP, RNE, Float64, FPVal
        if t == FP:
            return v
        sv = simplify(v)
        if t == INT and is_int_value(sv):
            return FPVal(float(sv.as_long()), Float64())
        if t == INT:
            return fpRealToFP(RNE(), ToReal(v), Float64())
        if t == REAL:
            return fpRealToFP(RNE(), v, Float64())
        raise Unsupported(f'cannot convert {t} to float64')

    def to_val(s, v, t):
        if t == NONE:
            return Const('VAL_None', sort(VAL))
        nm = 'val_of_' + sha(repr(t))
        if nm not in SPEC:
            SPEC[nm] = dict(f=Function(nm, sort(t), sort(VAL)), args=[t], ret=VAL, unfold=None)
        return SPEC[nm]['f'](v)

    def num2(s, a, ta, b, tb):
        if ta == tb:
            return a, b, ta
        if FP in (ta, tb):
            return s.to_fp(a, ta), s.to_fp(b, tb), FP
        if {ta, tb} <= {INT, REAL, BOOL}:
            if REAL in (ta, tb):
                return s.coerce(a, ta, REAL)[0], s.coerce(b, tb, REAL)[0], REAL
            return s.coerce(a, ta, INT)[0], s.coerce(b, tb, INT)[0], INT
        raise Unsupported(f'type mismatch {ta} vs {tb}')

    def deref(s, v, t, st):
        """list value behind a possibly-reference typed value"""
        if t.k == 'lref':
            e = t.a[0]
            return st.lheap[e][v], LIST(e)
        return v, t

    def truthy(s, v, t, st):
        if t == BOOL:
            return v
        if t == INT:
            return v != 0
        if t == REAL:
            return v != 0
        if t.k in ('list', 'lref'):
            lv, lt = s.deref(v, t, st)
            return L_len(lv, lt) != 0
        if t == STR:
            return Length(v) != 0
        if t.k == 'opt':
            inner = t.a[0]
            S = Ty.S(t)
            if inner.k == 'list':
                return And(Not(S.isnone(v)), L_len(S.val(v), inner) != 0)
            if inner == INT:
                return And(Not(S.isnone(v)), S.val(v) != 0)
            raise Unsupported(f'truthiness of {t}')
        if t == NONE:
            return BoolVal(False)
        if t == PYVAL:
            P = s.pv()
            lv, lt = s.pv_list(v, st)
            return Or(And(P.is_pI(v), P.iv(v) != 0), And(P.is_pF(v), P.fv(v) != 0), And(P.is_pS(v), Length(P.sv(v)) != 0), And(P.is_pB(v), P.bv(v)),
                      And(P.is_pT(v), P.tlen(v) != 0), And(P.is_pL(v), L_len(lv, lt) != 0), P.is_pO(v))
        raise Unsupported(f'truthiness of {t}')

    def member(s, x, tx, lv, lt):
        k = fresh_int('m')
        el = L_arr(lv, lt)[k]
        if lt.a[0] != tx:
            x2, el2, _ = s.num2(x, tx, el, lt.a[0])
        else:
            x2, el2 = x, el
        return Exists([k], And(0 <= k, k < L_len(lv, lt), el2 == x2))

    def wf_facts(s, v, t, depth=0):
        """list lengths are non-negative (a fact about Python lists the datatype encoding does not carry)"""
        out = s._wf_facts(v, t, depth)
        if depth == 0:
            keep = s.__dict__.setdefault('_wf_alive', [])
            ids = s.__dict__.setdefault('_wf_ids', set())
            for f in out:
                keep.append(f)          # kept alive so that the ids stay unique
                ids.add(f.get_id())
        return out

    def _wf_facts(s, v, t, depth=0):
        out = []
        if t.k == 'list':
            out.append(L_len(v, t) >= 0)
            if t.a[0].k in ('list', 'tup', 'opt') and depth < 2:
                k = Int(f'k!w{next(Ty._fresh)}')
                inner = s._wf_facts(L_arr(v, t)[k], t.a[0], depth + 1)
                if inner:
                    out.append(ForAll([k], And(*inner)))
        elif t.k == 'tup':
            for i, ti in enumerate(t.a):
                out += s._wf_facts(tup_get(v, t, i), ti, depth + 1)
        elif t.k == 'opt':
            out += s._wf_facts(Ty.S(t).val(v), t.a[0], depth + 1)
        elif t.k == 'arr':
            k = Const(f'k!w{next(Ty._fresh)}', sort(t.a[0]))
            inner = s._wf_facts(v[k], t.a[1], depth + 1)
            if inner:
                out.append(ForAll([k], And(*inner)))
        elif t.k == 'dict':
            k = Const(f'k!w{next(Ty._fresh)}', sort(t.a[0]))
            inner = s._wf_facts(Ty.S(t).val(v)[k], t.a[1], depth + 1)
            if inner:
                out.append(ForAll([k], And(*inner)))
        return out

    # ---------------------------------------------------------------- dynamically typed values (PyVal)
    def pv(s):
        return sort(PYVAL)

    def pv_isinstance(s, v, names):
        P = s.pv()
        alts = []
        for n_ in names:
            if n_ == 'list':
                alts.append(P.is_pL(v))
            elif n_ == 'tuple':
                alts.append(P.is_pT(v))
            elif n_ == 'str':
                alts.append(P.is_pS(v))
            elif n_ == 'int':
                alts += [P.is_pI(v), P.is_pB(v)]      # bool is a subclass of int
            elif n_ == 'float':
                alts.append(P.is_pF(v))
            elif n_ == 'bool':
                alts.append(P.is_pB(v))
            elif n_ == 'dict':
                alts.append(P.is_pD(v))
            else:
                raise Unsupported(f'isinstance with {n_}')
        return Or(*alts)

    def pv_num(s, v, st, line, what):
        """numeric reading of a PyVal in an ordering comparison: TypeError unless it is an int, bool or float"""
        P = s.pv()
        s.safe(st, f'typed:{what}-is-a-number', Or(P.is_pI(v), P.is_pB(v), P.is_pF(v)), line)
        return If(P.is_pI(v), ToReal(P.iv(v)), If(P.is_pB(v), If(P.bv(v), RealVal(1), RealVal(0)), P.fv(v))), REAL

    def pv_list(s, v, st):
        return st.lheap[PYVAL][s.pv().lref(v)], LIST(PYVAL)

    # ---------------------------------------------------------------- expressions
    def ev(s, e, st):
        m = getattr(s, 'ev_' + type(e).__name__, None)
        if m is None:
            raise Unsupported(f'expression {type(e).__name__} at line {getattr(e, "lineno", "?")}')
        return m(e, st)

    def ev_Constant(s, e, st):
        v = e.value
        if isinstance(v, bool):
            return BoolVal(v), BOOL
        if isinstance(v, int):
            return IntVal(v), INT
        if isinstance(v, float) and s.cur.get('float_mode') == 'fp64':
            from z3 import FPVal, Float64
            return FPVal(v, Float64()), FP
        if isinstance(v, float):
            from fractions import Fraction
            fr = Fraction(v)
            return RealVal(f'{fr.numerator}/{fr.denominator}'), REAL
        if isinstance(v, str):
            return StringVal(v), STR
        if v is None:
            return BoolVal(False), NONE
        raise Unsupported(f'constant {v!r}')

    def ev_Name(s, e, st):
        nm = e.id
        if nm in st.env:
            if not s.specmode and '__b_' + nm in st.env:
                bnd = st.env['__b_' + nm][0]
                if not is_true(simplify(bnd)):        # UnboundLocalError unless the variable was assigned on every path here
                    s.safe(st, f'bound:{nm}', bnd, e.lineno)
                    st.env['__b_' + nm] = (BoolVal(True), BOOL)
            return st.env[nm]
        if not s.specmode and '__b_' + nm in st.env:
            dt = s.declared(nm)
            if dt is None:
                raise Unsupported(f'local {nm} may be unbound at line {e.lineno}: declare its type in `locals`')
            s.safe(st, f'bound:{nm}', st.env['__b_' + nm][0], e.lineno)
            st.env[nm] = (fresh(nm, dt), dt)
            return st.env[nm]
        if s.specmode and nm in s.cur.get('_alias', {}) and s.cur['_alias'][nm] in st.env:
            return st.env[s.cur['_alias'][nm]]
        if s.specmode:
            if nm == 'NONEVAL':
                return Const('VAL_None', sort(VAL)), VAL
            dt0 = s.declared(nm)
            real_nm = s.cur.get('_alias', {}).get(nm, nm)       # the name the local goes by in the current source
            if dt0 is not None and '__b_' + real_nm in st.env:
                # a local that is not bound yet: contracts may mention it under a bound(...) guard; its value is arbitrary
                st.env[real_nm] = (fresh(real_nm, dt0), dt0)
                return st.env[real_nm]
            if nm == 'result' and 'result' in st.env:
                return st.env['result']
            hn = s.cur.get('heapnames', {})
            if nm in hn:
                f = hn[nm]
                return st.heap[f], ARR(INT, s.fields[f])
            if nm == 'LH':
                raise ContractError('use lcontent(ref) to read the list heap')
        c = s.cur['_consts']
        if nm in c:
            v = c[nm]
            return s.ev_Constant(ast.Constant(v), st)
        if nm in ('True', 'False'):
            return BoolVal(nm == 'True'), BOOL
        raise Unsupported(f'unbound name {nm} at line {getattr(e, "lineno", "?")}')

    def field_type(s, attr, objt):
        ov = getattr(s, 'cur', {}).get('fields_override') if hasattr(s, 'cur') else None
        ft = (ov or s.fields).get(attr)
        if ft is None:
            raise Unsupported(f'unknown field {attr}')
        if callable(ft):
            ft = ft(objt)
        return ft

    def ev_Attribute(s, e, st):
        o, t = s.ev(e.value, st)
        if t.k != 'ref':
            raise Unsupported(f'attribute {e.attr} of non-object {t}')
        ft = s.field_type(e.attr, t)
        if e.attr not in st.heap:
            if s.specmode:
                raise Unsupported(f'field {e.attr} not in heap of {s.cur["name"]}')
            # the code READS a field the contract does not list: nothing on this path can have written it (stores to and callee
            # effects on unlisted fields are refused), so it still holds its value at entry -- an unconstrained array
            aft = ARR(INT, ft)
            st.heap = dict(st.heap)
            st.heap[e.attr] = Const(f'H_{e.attr}', sort(aft))
            st.pc += s.wf_facts(st.heap[e.attr], aft)
        return st.heap[e.attr][o], ft

    def const_index(s, i):
        i = simplify(i)
        if is_int_value(i):
            return i.as_long()
        return None

    def split_part(s, e, st):
        """x.split(c)[-1] and x.split(c)[0] with a constant separator: the part after the last / before the first occurrence"""
        from z3 import IndexOf, SubString, LastIndexOf, Contains
        call = e.value
        x, tx = s.ev(call.func.value, st)
        c, tc = s.ev(call.args[0], st)
        k = s.const_index(s.ev(e.slice, st)[0])
        if tx != STR or tc != STR or k not in (0, -1):
            raise Unsupported('split form')
        if k == 0:
            return If(Contains(x, c), SubString(x, 0, IndexOf(x, c, 0)), x), STR
        li = LastIndexOf(x, c)
        return If(li < 0, x, SubString(x, li + Length(c), Length(x) - li - Length(c))), STR

    def ev_Subscript(s, e, st):
        if isinstance(e.value, ast.Call) and isinstance(e.value.func, ast.Attribute) and e.value.func.attr == 'split' and len(e.value.args) == 1:
            return s.split_part(e, st)
        b, t = s.ev(e.value, st)
        if isinstance(e.slice, ast.Slice):
            raise Unsupported('slice')
        i, ti = s.ev(e.slice, st)
        if t.k == 'rec':
            key = e.slice.value if isinstance(e.slice, ast.Constant) else None
            flds = dict(Ty.RECS[t.a[0]])
            if key not in flds:
                raise Unsupported(f'record key {key!r}')
            return getattr(Ty.S(t), 'k_' + key)(b), flds[key]
        if t.k == 'odict':
            if not s.specmode:
                s.safe(st, 'key', Ty.S(t).has(b)[i], e.lineno)
            return Ty.S(t).val(b)[i], t.a[0]
        if t == PYVAL:
            P = s.pv()
            k = s.const_index(i)
            if k not in (0, 1):
                raise Unsupported('PyVal subscript other than [0] / [1]')
            if not s.specmode:
                s.safe(st, 'typed:subscript-of-tuple', P.is_pT(b), e.lineno)
                s.safe(st, 'index', P.tlen(b) > k, e.lineno)
            return (P.t0(b) if k == 0 else P.t1(b)), PYVAL
        if t == TRANS:
            k = s.const_index(i)
            if k == 1 or k == -1:
                return t_tgt(b), INT
            if k == 0 or k == -2:
                if s.cur.get('slot0', 'lab') == 'lab':
                    return t_lab(b), STR
                return t_prob(b), REAL
            raise Unsupported('transition tuple index')
        if t.k == 'tup':
            k = s.const_index(i)
            if k is None or not (-len(t.a) <= k < len(t.a)):
                raise Unsupported('tuple index')
            k %= len(t.a)
            return tup_get(b, t, k), t.a[k]
        if t.k == 'arr':
            return b[i], t.a[1]
        if t.k in ('list', 'lref'):
            lv, lt = s.deref(b, t, st)
            n = L_len(lv, lt)
            if s.specmode:
                return L_arr(lv, lt)[i], lt.a[0]
            s.safe(st, 'index', And(-n <= i, i < n), e.lineno)
            k = s.const_index(i)
            if k is not None and k < 0:
                return L_arr(lv, lt)[n + k], lt.a[0]
            if k is None and not s.cur.get('nonneg_index', True):
                return L_arr(lv, lt)[If(i < 0, n + i, i)], lt.a[0]
            if k is None:
                # indices are proved non-negative wherever the contract says so (nonneg_index); cheaper terms
                s.safe(st, 'index>=0', i >= 0, e.lineno)
            return L_arr(lv, lt)[i], lt.a[0]
        if t.k == 'dict':
            S = Ty.S(t)
            if not s.specmode:
                s.safe(st, 'key', S.has(b)[i], e.lineno)
            return S.val(b)[i], t.a[1]
        raise Unsupported(f'subscript of {t}')

    def ev_BinOp(s, e, st):
        a, ta = s.ev(e.left, st)
        b, tb = s.ev(e.right, st)
        op = type(e.op)
        if ta == STR and tb == STR and op is ast.Add:
            return Concat(a, b), STR
        if ta == STR and tb == INT and op is ast.Mult:
            k = s.const_index(b)
            sv = simplify(a)
            if k is not None and sv.is_string_value() if hasattr(sv, 'is_string_value') else False:
                return StringVal(sv.as_string() * k), STR
            raise Unsupported('str * int')
        if ta.k == 'list' and tb.k == 'list' and op is ast.Add:
            return s.list_concat(a, ta, b, tb, st)
        if ta.k == 'list' and tb == INT and op is ast.Mult:
            return s.list_repeat(a, ta, b, st)
        a, b, t = s.num2(a, ta, b, tb)
        if t == FP:
            from z3 import fpAdd, fpSub, fpMul, fpDiv, RNE
            f = {ast.Add: fpAdd, ast.Sub: fpSub, ast.Mult: fpMul, ast.Div: fpDiv}.get(op)
            if f is None:
                raise Unsupported('float64 operator')
            return f(RNE(), a, b), FP
        if t == BOOL:
            raise Unsupported('arithmetic on bool')
        if t == INT and op in (ast.Add, ast.Sub, ast.Mult):
            # integer arithmetic is put into z3's normal form (n*4 and 4*n become the same term): code and contract then build
            # syntactically equal arguments for uninterpreted functions, which E-matching needs
            if op is ast.Mult:
                sa_, sb_ = simplify(a), simplify(b)
                if is_int_value(sb_) and not is_int_value(sa_):
                    return (a if sb_.as_long() == 1 else sb_ * a), t       # constant factor first; 1 * x is x
                if is_int_value(sa_) and sa_.as_long() == 1:
                    return b, t
                return a * b, t
            if op is ast.Add:
                sa_, sb_ = simplify(a), simplify(b)
                if is_int_value(sa_) and sa_.as_long() == 0:
                    return b, t
                if is_int_value(sb_) and sb_.as_long() == 0:
                    return a, t
                return a + b, t
            return a - b, t
        if op is ast.Add:
            return a + b, t
        if op is ast.Sub:
            return a - b, t
        if op is ast.Mult:
            return a * b, t
        if op is ast.Div:
            a, b = (ToReal(a), ToReal(b)) if t == INT else (a, b)
            s.safe(st, 'div', b != 0, e.lineno)
            return a / b, REAL
        if op is ast.Pow:
            kb = simplify(b)
            ka = simplify(a)
            from z3 import is_rational_value
            if (is_int_value(ka) or is_rational_value(ka)) and is_int_value(kb) and kb.as_long() < 0:
                # a closed power with a negative exponent: the value CPython computes (a float), as an exact rational
                base_ = ka.as_long() if is_int_value(ka) else float(ka.as_fraction())
                return s.ev_Constant(ast.Constant(float(base_) ** kb.as_long()), st)
            if is_int_value(kb) and kb.as_long() >= 0 and t == INT:
                r = IntVal(1)
                for _ in range(kb.as_long()):
                    r = r * a
                return r, INT
            if 'pow' in s.cur.get('externals', {}):
                return s.cur['externals']['pow'](s, st, a, b, t)
            raise Unsupported('power')
        raise Unsupported(f'operator {op.__name__}')

    def list_concat(s, a, ta, b, tb, st):
        if a is None:
            return b, tb
        if b is None:
            return a, ta
        if ta != tb:
            raise Unsupported(f'concat of {ta} and {tb}')
        r = fresh('cat', ta)
        k = fresh_int('k')
        na, nb = L_len(a, ta), L_len(b, tb)
        st.pc.append(L_len(r, ta) == na + nb)
        # triggers on the OPERANDS' elements: whenever a[k] / b[k] is mentioned, its place in the concatenation is known
        st.pc.append(ForAll([k], Implies(And(0 <= k, k < na), L_arr(r, ta)[k] == L_arr(a, ta)[k]), patterns=[L_arr(a, ta)[k]]))
        st.pc.append(ForAll([k], Implies(And(0 <= k, k < nb), L_arr(r, ta)[na + k] == L_arr(b, tb)[k]), patterns=[L_arr(b, tb)[k]]))
        # ... and whenever r[k] is mentioned, which operand it comes from
        st.pc.append(ForAll([k], Implies(And(0 <= k, k < na + nb), L_arr(r, ta)[k] == If(k < na, L_arr(a, ta)[k], L_arr(b, tb)[k - na])), patterns=[L_arr(r, ta)[k]]))
        return r, ta

    def list_repeat(s, a, ta, n, st):
        consts = s.cur.setdefault('_const_lists', [])
        known = [x for (lst, x) in consts if lst.eq(a)]
        sa = simplify(L_len(a, ta))
        if known:                       # ([x] * n) * m: still a list of x's, of length n * m
            x = known[0]
            total = L_len(a, ta) * n
        elif is_int_value(sa) and sa.as_long() == 1:
            x = simplify(L_arr(a, ta)[0])
            total = n
        else:
            raise Unsupported('list * int with a list that is not a repetition of one element')
        r = fresh('rep', ta)
        k = fresh_int('k')
        st.pc.append(L_len(r, ta) == If(total >= 0, total, 0))
        st.pc.append(ForAll([k], Implies(And(0 <= k, k < L_len(r, ta)), L_arr(r, ta)[k] == x)))
        consts.append((r, x))
        return r, ta

    def ev_UnaryOp(s, e, st):
        if isinstance(e.op, ast.Not):
            sv = s.pol
            s.pol = -s.pol
            try:
                v, t = s.ev(e.operand, st)
            finally:
                s.pol = sv
            return Not(s.truthy(v, t, st)), BOOL
        if isinstance(e.op, ast.USub):
            v, t = s.ev(e.operand, st)
            return -v, t
        raise Unsupported('unary op')

    def ev_BoolOp(s, e, st):
        # short-circuit: later operands are evaluated (and their safety obligations checked) under the earlier ones;
        # facts their evaluation establishes are carried back guarded by that condition
        vals = []
        guards = []
        for i, x in enumerate(e.values):
            if guards and not s.specmode:
                st2 = st.clone()
                st2.pc += guards
                n0 = len(st2.pc)
                v, t = s.ev(x, st2)
                b = s.truthy(v, t, st2)
                for f in st2.pc[n0:]:
                    st.pc.append(Implies(And(*guards), f))
            else:
                v, t = s.ev(x, st)
                b = s.truthy(v, t, st)
            vals.append(b)
            guards.append(b if isinstance(e.op, ast.And) else Not(b))
        return (And(*vals) if isinstance(e.op, ast.And) else Or(*vals)), BOOL

    def cmp(s, op, a, ta, b, tb, st, line):
        if isinstance(op, (ast.In, ast.NotIn)):
            if tb.k in ('list', 'lref'):
                lv, lt = s.deref(b, tb, st)
                r = s.member(a, ta, lv, lt)
            elif tb.k == 'dict':
                r = Ty.S(tb).has(b)[a]
            elif tb.k == 'opt' and tb.a[0].k == 'list':
                S = Ty.S(tb)
                if not s.specmode:
                    s.safe(st, 'in-None', Not(S.isnone(b)), line)
                r = s.member(a, ta, S.val(b), tb.a[0])
            else:
                raise Unsupported(f'in {tb}')
            return Not(r) if isinstance(op, ast.NotIn) else r
        if isinstance(op, (ast.Is, ast.IsNot)):
            if tb == NONE and ta == PYVAL:
                r = s.pv().is_pN(a)
            elif tb == NONE and ta.k == 'opt':
                r = Ty.S(ta).isnone(a)
            elif tb == NONE and ta == NONE:
                r = BoolVal(True)
            elif tb == NONE:
                r = BoolVal(False)
            else:
                raise Unsupported('is')
            return Not(r) if isinstance(op, ast.IsNot) else r
        if isinstance(op, (ast.Eq, ast.NotEq)):
            if FP in (ta, tb):
                from z3 import fpEQ
                from z3 import is_fp_value
                a2, b2, _ = s.num2(a, ta, b, tb)
                cst = [x for x in (simplify(a2), simplify(b2)) if is_fp_value(x) and not x.isNaN() and not x.isZero()]
                # equality with a non-zero, non-NaN constant: IEEE equality coincides with identity (lets the solver substitute)
                r = (a2 == b2) if cst else fpEQ(a2, b2)
            elif ta == tb:
                if ta.k == 'list' and not s.cur.get('list_eq_structural', False) and not s.specmode:
                    r = s.eqlist(a, ta, b, tb)
                elif ta.k == 'lref' and not s.specmode:
                    # Python's == on two list objects compares their CONTENT (identity is `is`); only contracts compare references
                    la, lta = s.deref(a, ta, st)
                    lb, ltb = s.deref(b, tb, st)
                    r = s.eqlist(la, lta, lb, ltb)
                else:
                    r = a == b
            elif {ta, tb} <= {INT, REAL, BOOL}:
                a2, b2, _ = s.num2(a, ta, b, tb)
                r = a2 == b2
            elif s.specmode and {ta.k, tb.k} <= {'ref', 'lref', 'int'}:
                r = a == b          # references are integers in the encoding; contracts may quantify over them
            elif ta.k == 'opt' and tb == NONE:
                r = Ty.S(ta).isnone(a)
            elif ta.k in ('list', 'lref') and tb.k in ('list', 'lref'):
                la, lta = s.deref(a, ta, st)
                lb, ltb = s.deref(b, tb, st)
                r = s.eqlist(la, lta, lb, ltb)
            else:
                raise Unsupported(f'== between {ta} and {tb}')
            return Not(r) if isinstance(op, ast.NotEq) else r
        if PYVAL in (ta, tb):
            if ta == PYVAL:
                a, ta = s.pv_num(a, st, line, 'left-operand')
            if tb == PYVAL:
                b, tb = s.pv_num(b, st, line, 'right-operand')
            a2, b2, t = s.num2(a, ta, b, tb)
        elif s.specmode and {ta.k, tb.k} <= {'ref', 'lref', 'int'}:
            a2, b2, t = a, b, INT       # references are integers; contracts compare them with allocation counters
        else:
            a2, b2, t = s.num2(a, ta, b, tb)
        if t == FP:
            from z3 import fpLT, fpLEQ, fpGT, fpGEQ
            return {ast.Lt: fpLT, ast.LtE: fpLEQ, ast.Gt: fpGT, ast.GtE: fpGEQ}[type(op)](a2, b2)
        if t not in (INT, REAL):
            raise Unsupported(f'ordering on {t}')
        return {ast.Lt: lambda: a2 < b2, ast.LtE: lambda: a2 <= b2, ast.Gt: lambda: a2 > b2, ast.GtE: lambda: a2 >= b2}[type(op)]()

    def eqlist(s, a, ta, b, tb):
        if a is None and b is None:
            return BoolVal(True)
        if a is None:
            return L_len(b, tb) == 0
        if b is None:
            return L_len(a, ta) == 0
        if ta != tb:
            raise Unsupported(f'eqlist {ta} {tb}')
        k = fresh_int('q')
        body = Implies(And(0 <= k, k < L_len(a, ta)), L_arr(a, ta)[k] == L_arr(b, tb)[k])
        if s.pol > 0 and s.binders == 0:
            return And(L_len(a, ta) == L_len(b, tb), body)      # k is a fresh constant: skolemised
        return And(L_len(a, ta) == L_len(b, tb), ForAll([k], body))

    def ev_Compare(s, e, st):
        sv = s.pol
        s.pol = 0               # operands of a comparison (e.g. booleans under ==) have no fixed polarity
        try:
            return s._compare(e, st, sv)
        finally:
            s.pol = sv

    def _compare(s, e, st, outer_pol):
        a, ta = s.ev(e.left, st)
        res = []
        for op, c in zip(e.ops, e.comparators):
            if isinstance(op, (ast.In, ast.NotIn)) and isinstance(c, (ast.List, ast.Tuple)) and len(e.ops) == 1:
                # membership in a literal: a plain disjunction of equalities
                alts = []
                for el in c.elts:
                    b, tb = s.ev(el, st)
                    alts.append(s.cmp(ast.Eq(), a, ta, b, tb, st, e.lineno))
                r = Or(*alts) if alts else BoolVal(False)
                return (Not(r) if isinstance(op, ast.NotIn) else r), BOOL
            b, tb = s.ev(c, st)
            s.pol = outer_pol if len(e.ops) == 1 and isinstance(op, ast.Eq) and ta.k in ('list', 'lref') else 0
            res.append(s.cmp(op, a, ta, b, tb, st, e.lineno))
            s.pol = 0
            a, ta = b, tb
        return (And(*res) if len(res) > 1 else res[0]), BOOL

    def ev_IfExp(s, e, st):
        sv = s.pol
        s.pol = 0               # a condition occurs in both polarities
        try:
            c, tc = s.ev(e.test, st)
        finally:
            s.pol = sv
        c = s.truthy(c, tc, st)
        if s.specmode:
            a, ta = s.ev(e.body, st)
            b, tb = s.ev(e.orelse, st)
        else:
            sa = st.clone(); sa.pc.append(c)
            sb = st.clone(); sb.pc.append(Not(c))
            a, ta = s.ev(e.body, sa)
            b, tb = s.ev(e.orelse, sb)
        if ta != tb:
            if {ta, tb} <= {INT, REAL, BOOL}:
                a, b, ta = s.num2(a, ta, b, tb)
            else:
                raise Unsupported(f'if-expression branches {ta} / {tb}')
        return If(c, a, b), ta

    def mk_tuple(s, vs, st=None, line=0):
        if len(vs) == 2 and vs[1][1].k == 'opt' and vs[1][1].a[0] == INT and st is not None and not s.specmode:
            # a (label, target) tuple whose target is an optional int: the typed model needs the int; (x, None) is outside it
            ov, ot = vs[1]
            s.safe(st, 'tuple-target-not-None', Not(Ty.S(ot).isnone(ov)), line)
            vs = [vs[0], (Ty.S(ot).val(ov), INT)]
        if len(vs) == 2 and s.cur.get('tuple2', 'trans') == 'trans' and vs[1][1] == INT and vs[0][1] in (STR, REAL, INT, BOOL):
            (x, tx), (y, _) = vs
            if tx == STR:
                return trans_mk(lab=x, tgt=y), TRANS
            return trans_mk(prob=s.coerce(x, tx, REAL)[0], tgt=y), TRANS
        t = TUP(*[t for _, t in vs])
        return tup_mk(t, [v for v, _ in vs]), t

    def ev_Tuple(s, e, st):
        return s.mk_tuple([s.ev(x, st) for x in e.elts], st, getattr(e, 'lineno', 0))

    def ev_List(s, e, st):
        vs = [s.ev(x, st) for x in e.elts]
        if not vs:
            return None, LIST(NONE)     # element type fixed at first use (assignment to a declared local)
        t0 = vs[0][1]
        for _, t in vs:
            if t != t0:
                if {t, t0} <= {INT, REAL}:
                    t0 = REAL
                else:
                    raise Unsupported('heterogeneous list literal')
        return L_lit(LIST(t0), [s.coerce(v, t, t0)[0] for v, t in vs]), LIST(t0)

    def ev_Dict(s, e, st):
        if e.keys:
            if not all(isinstance(k, ast.Constant) and isinstance(k.value, str) for k in e.keys):
                raise Unsupported('dict literal with non-constant keys')
            return {k.value: s.ev(v, st) for k, v in zip(e.keys, e.values)}, T('reclit')
        return None, DICT(NONE, NONE)      # type fixed by the declared local it is assigned to

    def ev_JoinedStr(s, e, st):
        parts = []
        for p in e.values:
            if isinstance(p, ast.Constant):
                parts.append(StringVal(p.value))
            else:
                v, t = s.ev(p.value, st)
                if p.conversion != -1 or p.format_spec is not None:
                    # {x!r}, {x:.2f}: a different (uninterpreted) rendering than plain {x} -- never identified with it
                    key = f'{p.conversion}|{ast.dump(p.format_spec) if p.format_spec is not None else ""}'
                    nm_ = 'fmtspec_' + sha(repr(t) + key)
                    if nm_ not in SPEC:
                        SPEC[nm_] = dict(f=Function(nm_, sort(t), Ty.StringSort()), args=[t], ret=STR, unfold=None)
                    parts.append(SPEC[nm_]['f'](v))
                else:
                    parts.append(s.fmt(v, t))
        if not parts:
            return StringVal(""), STR
        return (Concat(*parts) if len(parts) > 1 else parts[0]), STR

    def fmt(s, v, t):
        if t == STR:
            return v
        nm = 'fmt_' + sha(repr(t))
        if nm not in SPEC:
            SPEC[nm] = dict(f=Function(nm, sort(t), Ty.StringSort()), args=[t], ret=STR, unfold=None)
        return SPEC[nm]['f'](v)

    def ev_ListComp(s, e, st):
        return s.comprehension(e, st)

    def ev_Call(s, e, st):
        return s.call(e, st)

    # ---------------------------------------------------------------- quantifiers and spec-only forms
    def quant(s, kind, e, st):
        # forall(k, lo, hi, body) / exists(k, lo, hi, body) / forall_t(k, 'type', body)
        if not s.specmode:
            raise Unsupported('quantifier in code')
        var = e.args[0].id
        if var in st.env:
            raise ContractError(f'bound variable {var!r} shadows a name in scope (would capture): rename it')
        if len(e.args) == 4:
            lo, _ = s.ev(e.args[1], st)
            hi, _ = s.ev(e.args[2], st)
            vt = INT
            body_e = e.args[3]
        else:               # forall(r, body): r ranges over all integers (object / list references); forall(k, 'str', body): over strings
            vt = {'str': STR, 'int': INT, 'real': REAL}[e.args[1].value] if len(e.args) == 3 and isinstance(e.args[1], ast.Constant) else INT
            lo = hi = None
            body_e = e.args[-1]
        # skolemise only at the top level: under a retained binder the witness would depend on the bound variable
        want_skolem = ((kind == 'forall' and s.pol > 0) or (kind == 'exists' and s.pol < 0)) and s.binders == 0
        k = fresh(var + ('!sk' if want_skolem else ''), vt) if want_skolem else Const(f'{var}!b{next(Ty._fresh)}', sort(vt))
        st2 = st.clone()
        st2.env[var] = (k, vt)
        rng = And(lo <= k, k < hi) if lo is not None else BoolVal(True)
        if not want_skolem:
            s.binders += 1
        try:
            body, _ = s.ev(body_e, st2)
        finally:
            if not want_skolem:
                s.binders -= 1
        if kind == 'forall':
            f = Implies(rng, body) if lo is not None else body
            if want_skolem:
                return f, BOOL
            # forall a (Ra => forall b (Rb => B))  ==  forall a, b (Ra and Rb => B): one multi-variable quantifier gives the
            # solver joint triggers such as CountP(L, n, (v, u))
            from z3 import substitute_vars
            if is_quantifier(body) and body.is_forall() and body.num_patterns() == 0:
                inner = [Const(f'{body.var_name(i)}!m{next(Ty._fresh)}', body.var_sort(i)) for i in range(body.num_vars())]
                ib = substitute_vars(body.body(), *reversed(inner))
                g2 = Implies(rng, ib) if lo is not None else ib
                return ForAll([k] + inner, g2), BOOL
            pats = _patterns_for(k, f) if _has_quant(f) else []
            return (ForAll([k], f, patterns=pats) if pats else ForAll([k], f)), BOOL
        f = And(rng, body) if lo is not None else body
        return (f if want_skolem else Exists([k], f)), BOOL

    # ---------------------------------------------------------------- calls
    def call(s, e, st):
        f = e.func
        if isinstance(f, ast.Name):
            nm = f.id
            if s.specmode:
                if nm in ('forall', 'exists'):
                    return s.quant(nm, e, st)
                if nm == 'implies':
                    sv = s.pol
                    s.pol = -sv
                    try:
                        a, _ = s.ev(e.args[0], st)
                    finally:
                        s.pol = sv
                    b, _ = s.ev(e.args[1], st)
                    return Implies(a, b), BOOL
                if nm == 'iff':
                    sv = s.pol
                    s.pol = 0
                    try:
                        a, _ = s.ev(e.args[0], st)
                        b, _ = s.ev(e.args[1], st)
                    finally:
                        s.pol = sv
                    return a == b, BOOL
                if nm == 'old':
                    if st.old is None:
                        raise ContractError('old() outside a two-state context')
                    o = st.old.clone()
                    o.pc = st.pc
                    for k2, v2 in st.env.items():      # bound variables of enclosing quantifiers stay visible
                        if k2 not in o.env:
                            o.env[k2] = v2
                    return s.ev(e.args[0], o)
                if nm == 'eqlist':
                    a, ta = s.ev(e.args[0], st)
                    b, tb = s.ev(e.args[1], st)
                    a, ta = s.deref(a, ta, st)
                    b, tb = s.deref(b, tb, st)
                    return s.eqlist(a, ta, b, tb), BOOL
                if nm == 'lcontent':       # the list value behind a reference
                    a, ta = s.ev(e.args[0], st)
                    if ta == INT:          # a quantified reference: the heap of transition lists
                        ta = LREF(TRANS)
                    return s.deref(a, ta, st)
                if nm == 'store':
                    a, t = s.ev(e.args[0], st)
                    i, _ = s.ev(e.args[1], st)
                    x, tx = s.ev(e.args[2], st)
                    return Store(a, i, s.coerce(x, tx, t.a[1])[0]), t
                if nm == 'ite':
                    sv = s.pol
                    s.pol = 0
                    try:
                        c, _ = s.ev(e.args[0], st)
                    finally:
                        s.pol = sv
                    a, ta = s.ev(e.args[1], st)
                    b, tb = s.ev(e.args[2], st)
                    if ta != tb:
                        a, b, ta = s.num2(a, ta, b, tb)
                    return If(c, a, b), ta
                if nm in ('is_list', 'is_tuple', 'is_str', 'is_int', 'is_float', 'is_none', 'is_bool'):
                    a, _ = s.ev(e.args[0], st)
                    P = s.pv()
                    return {'is_list': P.is_pL, 'is_tuple': P.is_pT, 'is_str': P.is_pS, 'is_int': lambda x: Or(P.is_pI(x), P.is_pB(x)),
                            'is_float': P.is_pF, 'is_none': P.is_pN, 'is_bool': P.is_pB}[nm](a), BOOL
                if nm in ('tlen', 'slot0', 'slot1', 'intval', 'plist', 'strval'):
                    a, _ = s.ev(e.args[0], st)
                    P = s.pv()
                    if nm == 'tlen':
                        return P.tlen(a), INT
                    if nm == 'slot0':
                        return P.t0(a), PYVAL
                    if nm == 'slot1':
                        return P.t1(a), PYVAL
                    if nm == 'intval':
                        return If(P.is_pB(a), If(P.bv(a), IntVal(1), IntVal(0)), P.iv(a)), INT
                    if nm == 'strval':
                        return P.sv(a), STR
                    return st.lheap[PYVAL][P.lref(a)], LIST(PYVAL)
                if nm == 'truthy':
                    a, ta = s.ev(e.args[0], st)
                    return s.truthy(a, ta, st), BOOL
                if nm == 'some_int':
                    a_, _ = s.ev(e.args[0], st)
                    return opt_some(OPT(INT), a_), OPT(INT)
                if nm == 'none_int':
                    return opt_none(OPT(INT)), OPT(INT)
                if nm == 'toval':
                    a_, ta_ = s.ev(e.args[0], st)
                    return s.to_val(a_, ta_), VAL
                if nm in ('okeys', 'ohas', 'oval'):
                    d_, td_ = s.ev(e.args[0], st)
                    if nm == 'okeys':
                        return Ty.S(td_).keys(d_), LIST(STR)
                    k_, _ = s.ev(e.args[1], st)
                    return (Ty.S(td_).has(d_)[k_], BOOL) if nm == 'ohas' else (Ty.S(td_).val(d_)[k_], td_.a[0])
                if nm == 'is_dict':
                    a_, _ = s.ev(e.args[0], st)
                    return s.pv().is_pD(a_), BOOL
                if nm == 'cut':      # cut('<key>'): the value under that key of the dict literal assigned at the cut
                    key_ = ast.literal_eval(e.args[0])
                    if '__cut_' + key_ not in st.env:
                        raise ContractError(f"cut({key_!r}): the statement at the cut does not assign a dict literal with that key")
                    return st.env['__cut_' + key_]
                if nm == 'bound':
                    b_ = st.env.get('__b_' + s.cur.get('_alias', {}).get(e.args[0].id, e.args[0].id))
                    return (b_[0] if b_ else BoolVal(True)), BOOL
                if nm == 'fp':
                    from z3 import FPVal, Float64
                    return FPVal(float(ast.literal_eval(e.args[0])), Float64()), FP
                if nm == 'isnan':
                    from z3 import fpIsNaN
                    return fpIsNaN(s.ev(e.args[0], st)[0]), BOOL
                if nm == 'real':
                    a, ta = s.ev(e.args[0], st)
                    return s.coerce(a, ta, REAL)
                if nm == 'lab':
                    a, _ = s.ev(e.args[0], st)
                    return t_lab(a), STR
                if nm == 'prob':
                    a, _ = s.ev(e.args[0], st)
                    return t_prob(a), REAL
                if nm == 'tgt':
                    a, _ = s.ev(e.args[0], st)
                    return t_tgt(a), INT
                if nm == 'isnone':
                    a, ta = s.ev(e.args[0], st)
                    return Ty.S(ta).isnone(a), BOOL
                if nm == 'some':
                    a, ta = s.ev(e.args[0], st)
                    return Ty.S(ta).val(a), ta.a[0]
                if nm == 'cls':
                    a, _ = s.ev(e.args[0], st)
                    return st.heap['__class__'][a], INT
                if nm == 'alloc_l':
                    return st.alloc_l, INT
                if nm == 'alloc_o':
                    return st.alloc_o, INT
                if nm == 'has':
                    d, td = s.ev(e.args[0], st)
                    k, _ = s.ev(e.args[1], st)
                    return Ty.S(td).has(d)[k], BOOL
                if nm == 'dval':
                    d, td = s.ev(e.args[0], st)
                    k, _ = s.ev(e.args[1], st)
                    return Ty.S(td).val(d)[k], td.a[1]
                if nm in LEMMAS:
                    s.cur.setdefault('_lemmas_used', set()).add(nm)
                    vs = [s.ev(a, st)[0] for a in e.args]
                    return LEMMAS[nm](*vs), BOOL
            if nm in SPEC and (s.specmode or SPEC[nm].get('code_ok')):
                sp = SPEC[nm]
                vs = []
                for a, want in zip(e.args, sp['args']):
                    v, t = s.ev(a, st)
                    if t.k == 'lref' and want.k == 'list':
                        v, t = s.deref(v, t, st)
                    vs.append(s.coerce(v, t, want)[0])
                return sp['f'](*vs), sp['ret']
            bi = getattr(s, 'bi_' + nm, None)
            if bi is not None:
                # the modelled builtins are modelled for their plain positional forms only: an extra positional or keyword argument
                # (eval(x, globals), sorted(x, key=...), round(x, ndigits=...), max(x, default=...)) changes their meaning
                arity = {'len': 1, 'abs': 1, 'str': 1, 'int': 1, 'float': 1, 'eval': 1, 'set': 1, 'list': 1, 'isinstance': 2, 'round': 2, 'open': 2}
                if e.keywords or (nm in arity and len(e.args) > arity[nm]) or any(isinstance(a_, ast.Starred) for a_ in e.args):
                    raise Unsupported(f'{nm}() called with arguments outside its modelled form at line {e.lineno}')
                return bi(e, st)
            ext = s.cur.get('externals', {})
            if nm in ext:
                return ext[nm](s, st, e)
            q = s.resolve_function(nm)
            if q is not None:
                return s.call_contract(q, None, None, e, st)
            fn_, recv_ = s.find_helper(e, st) if not s.specmode else (None, None)
            if fn_ is not None:
                return s.inline_expr(fn_, recv_, e, st)
            raise Unsupported(f'call to {nm} at line {e.lineno}')
        if isinstance(f, ast.Attribute):
            # module-level externals: math.floor, random.random, ...
            if isinstance(f.value, ast.Name) and f.value.id in ('math', 'random', 'time', 'copy', 'logging'):
                key = f'{f.value.id}.{f.attr}'
                ext = s.cur.get('externals', {})
                if key in ext:
                    return ext[key](s, st, e)
                raise Unsupported(f'external {key} has no assumed contract')
            m = getattr(s, 'meth_' + f.attr, None)
            o, ot = s.ev(f.value, st)
            if ot.k == 'ref':
                q = s.resolve_method(ot, f.attr)
                if q is None:
                    fn_, recv_ = s.find_helper(e, st) if not s.specmode else (None, None)
                    if fn_ is not None:
                        return s.inline_expr(fn_, recv_, e, st)
                    raise Unsupported(f'no contract for method {f.attr} on {ot}')
                return s.call_contract(q, o, ot, e, st)
            if m is not None:
                s.builtin_method(e, f.attr)
                return m(e, o, ot, st)
            raise Unsupported(f'method {f.attr} on {ot}')
        raise Unsupported('call form')

    def builtin_method(s, e, attr):
        """the model of a list/file method, for its plain positional form only (x.sort(reverse=True), x.pop(0), ... are not that form)"""
        m = getattr(s, 'meth_' + attr, None)
        if m is not None and e is not None:
            arity = {'sort': 0, 'copy': 0, 'close': 0, 'read': 0, 'pop': 0, 'append': 1, 'extend': 1, 'remove': 1, 'write': 1, 'writelines': 1}
            if e.keywords or len(e.args) != arity.get(attr, len(e.args)) or any(isinstance(a_, ast.Starred) for a_ in e.args):
                raise Unsupported(f'.{attr}() called with arguments outside its modelled form at line {e.lineno}')
        return m

    def resolve_function(s, nm):
        view = s.cur.get('callee_contracts', {}).get(nm)      # a summary contract chosen by the caller's contract (listed as an assumption)
        if view:
            return view
        mod = s.cur['name'].split('.')[0]
        for q in (f'{mod}.{nm}',) + tuple(f'{m}.{nm}' for m in s.modules):
            if q in s.contracts:
                return q
        return None

    def resolve_method(s, ot, attr):
        cls = ot.a[0]
        view = s.cur.get('callee_contracts', {}).get(f'{cls}.{attr}')
        if view:
            return view
        mod = s.cur.get('class_module', {}).get(cls) or s.cur['name'].split('.')[0]
        for m in (mod,) + tuple(s.modules):
            q = f'{m}.{cls}.{attr}'
            if q in s.contracts:
                return q
        # a method only some subclass defines, called on a receiver of the base type under a guard: the unique
        # contract of that name is used; its `requires` carries the class tag, so the guard is what discharges it
        cands = [q for q in s.contracts if q.endswith('.' + attr) and q.count('.') == 2]
        if len(cands) == 1:
            return cands[0]
        return None

    # builtins
    def bi_len(s, e, st):
        v, t = s.ev(e.args[0], st)
        if t == PYVAL:
            P = s.pv()
            s.safe(st, 'typed:len-of-sized', Or(P.is_pT(v), P.is_pL(v), P.is_pS(v)), e.lineno)     # len(None), len(5) raise TypeError
            lv, lt = s.pv_list(v, st)
            return If(P.is_pT(v), P.tlen(v), If(P.is_pL(v), L_len(lv, lt), Length(P.sv(v)))), INT
        if t == STR:
            return Length(v), INT
        if t.k == 'opt' and t.a[0].k == 'list':
            S = Ty.S(t)
            s.safe(st, 'len-None', Not(S.isnone(v)), e.lineno)
            return L_len(S.val(v), t.a[0]), INT
        if t.k == 'odict':          # number of keys of an ordered dictionary
            return L_len(Ty.S(t).keys(v), LIST(STR)), INT
        if t.k not in ('list', 'lref'):
            raise Unsupported(f'len of {t}')
        lv, lt = s.deref(v, t, st)
        return L_len(lv, lt), INT

    def bi_abs(s, e, st):
        v, t = s.ev(e.args[0], st)
        return If(v >= 0, v, -v), t

    def bi_round(s, e, st):
        v, t = s.ev(e.args[0], st)
        if len(e.args) == 1 and t == FP:
            from z3 import RNE
            return s.fp_to_int(v, RNE(), st, e.lineno)     # round(x): nearest integer, ties to even
        if len(e.args) == 1:
            ext = s.cur.get('externals', {})
            if 'round1' in ext:
                return ext['round1'](s, st, e)
            raise Unsupported('round/1')
        d, _ = s.ev(e.args[1], st)
        if 'round6' not in SPEC:
            raise Unsupported('round6 spec missing')
        if not s.specmode:
            s.safe(st, 'round-digits', d == 6, e.lineno)
        return SPEC['round6']['f'](s.coerce(v, t, REAL)[0]), REAL

    def fp_to_int(s, v, mode, st, line):
        from z3 import fpRoundToIntegral, fpToReal, fpIsNaN, fpIsInf
        s.safe(st, 'float-to-int-finite', And(Not(fpIsNaN(v)), Not(fpIsInf(v))), line)     # int(nan) / int(inf) raise
        return ToInt(fpToReal(fpRoundToIntegral(mode, v))), INT

    def bi_int(s, e, st):
        v, t = s.ev(e.args[0], st)
        if t == FP:
            from z3 import RTZ
            return s.fp_to_int(v, RTZ(), st, e.lineno)
        if t == INT:
            return v, INT
        if t == REAL:
            return If(v >= 0, ToInt(v), -ToInt(-v)), INT
        raise Unsupported('int()')

    def bi_str(s, e, st):
        v, t = s.ev(e.args[0], st)
        if t == INT:
            from z3 import IntToStr
            # Python str(int): sign + digits; z3's int.to.str is "" for negatives
            return If(v >= 0, IntToStr(v), Concat(StringVal("-"), IntToStr(-v))), STR
        return s.fmt(v, t), STR

    def bi_isinstance(s, e, st):
        v, t = s.ev(e.args[0], st)
        c = e.args[1]
        names = [x.id for x in c.elts] if isinstance(c, ast.Tuple) else [c.id]
        if t == PYVAL:
            return s.pv_isinstance(v, names), BOOL
        static = {'list': t.k in ('list', 'lref'), 'tuple': t.k in ('tup', 'trans'), 'str': t == STR, 'int': t in (INT, BOOL), 'float': t == REAL, 'dict': t.k == 'dict'}
        return BoolVal(any(static.get(n_, False) for n_ in names)), BOOL

    def _minmax(s, e, st, ismax):
        if len(e.args) >= 2:
            vs = [s.ev(a, st) for a in e.args]
            r, tr = vs[0]
            for v, t in vs[1:]:
                r2, v2, tr = s.num2(r, tr, v, t)
                r = If(v2 > r2, v2, r2) if ismax else If(v2 < r2, v2, r2)
            return r, tr
        v, t = s.ev(e.args[0], st)
        lv, lt = s.deref(v, t, st)
        if lt.k != 'list' or lt.a[0] not in (INT, REAL):
            raise Unsupported('min/max of non-numeric list')
        n = L_len(lv, lt)
        if s.cur.get('minmax_empty_raises') and not s.specmode:
            # CPython: min([]) / max([]) raise ValueError; that exit is checked against the `raises` clause here
            t0 = st.clone()
            t0.pc.append(n <= 0)
            s.exit_raise(t0, 'ValueError', None, e.lineno)
            st.pc.append(n > 0)
        else:
            s.safe(st, 'minmax-nonempty', n > 0, e.lineno)
        r = fresh('mx' if ismax else 'mn', lt.a[0])
        k = fresh_int('k')
        a = L_arr(lv, lt)
        st.pc.append(ForAll([k], Implies(And(0 <= k, k < n), (a[k] <= r) if ismax else (a[k] >= r))))
        k2 = fresh_int('kw')
        st.pc.append(And(0 <= k2, k2 < n, a[k2] == r))
        return r, lt.a[0]

    def bi_max(s, e, st):
        return s._minmax(e, st, True)

    def bi_min(s, e, st):
        return s._minmax(e, st, False)

    def bi_set(s, e, st):
        """set(list of ints): encoded as its membership predicate (an array Int -> Bool); == is extensional"""
        v, t = s.ev(e.args[0], st)
        lv, lt = s.deref(v, t, st)
        if lt.k != 'list' or lt.a[0] != INT:
            raise Unsupported('set() of a non-int list')
        r = fresh('set', ARR(INT, BOOL))
        x = Int(f'x!s{next(Ty._fresh)}')
        k = Int(f'k!s{next(Ty._fresh)}')
        st.pc.append(ForAll([x], r[x] == Exists([k], And(0 <= k, k < L_len(lv, lt), L_arr(lv, lt)[k] == x))))
        return r, ARR(INT, BOOL)

    def bi_range(s, e, st):
        raise Unsupported('range outside for')

    # list methods on values reached through an lvalue
    def mutate_list(s, target, st, fn, line):
        """apply fn(listvalue, LIST type, st) -> new listvalue to the list denoted by lvalue `target`"""
        if isinstance(target, ast.Name):
            v, t = st.env[target.id] if target.id in st.env else (None, None)
            if t is None:
                raise Unsupported(f'unbound list {target.id}')
            if t.k == 'lref':
                e0 = t.a[0]
                cur = st.lheap[e0][v]
                st.lheap[e0] = Store(st.lheap[e0], v, fn(cur, LIST(e0)))
                return
            if t.k == 'opt':
                raise Unsupported('mutation of optional list')
            st.env[target.id] = (fn(v, t), t)
            return
        if isinstance(target, ast.Attribute):
            o, ot = s.ev(target.value, st)
            ft = s.field_type(target.attr, ot)
            if ft.k == 'lref':
                r = st.heap[target.attr][o]
                e0 = ft.a[0]
                st.lheap[e0] = Store(st.lheap[e0], r, fn(st.lheap[e0][r], LIST(e0)))
                return
            if ft.k == 'list':
                st.heap[target.attr] = Store(st.heap[target.attr], o, fn(st.heap[target.attr][o], ft))
                return
            raise Unsupported('mutation through attribute')
        if isinstance(target, ast.Subscript):
            i, _ = s.ev(target.slice, st)

            def upd(bv, bt):
                if bt.k == 'list':
                    n = L_len(bv, bt)
                    s.safe(st, 'index', And(0 <= i, i < n), line)
                    et = bt.a[0]
                    if et.k == 'lref':
                        r = L_arr(bv, bt)[i]
                        e0 = et.a[0]
                        st.lheap[e0] = Store(st.lheap[e0], r, fn(st.lheap[e0][r], LIST(e0)))
                        return bv
                    return L_mk(bt, Store(L_arr(bv, bt), i, fn(L_arr(bv, bt)[i], et)), n)
                if bt.k == 'dict':
                    S = Ty.S(bt)
                    s.safe(st, 'key', S.has(bv)[i], line)
                    return S.mk(S.has(bv), Store(S.val(bv), i, fn(S.val(bv)[i], bt.a[1])))
                raise Unsupported(f'nested mutation through {bt}')
            s.mutate_list(target.value, st, upd, line)
            return
        raise Unsupported('mutation target')

    def meth_append(s, e, o, ot, st):
        x, tx = s.ev(e.args[0], st)
        if x is not None and tx in (INT, REAL) and not is_const(x) and len(str(x)) > 80:
            nm = fresh('elt', tx)          # name a large element term once instead of repeating it in every later formula
            st.pc.append(nm == x)
            x = nm

        def fn(lv, lt):
            et = lt.a[0]
            xv = s.coerce(x, tx, et)[0] if (x is not None or et.k in ('list', 'opt')) else None
            if x is None:
                xv = empty(et)
            new = L_app(lv, lt, xv)
            # a valid fact about append, stated with a trigger on the OLD list's elements so that witnesses found in the
            # old list are also recognised in the new one (E-matching would otherwise have no term new[m] to match)
            m = Int(f'm!a{next(Ty._fresh)}')
            st.pc.append(ForAll([m], Implies(And(0 <= m, m < L_len(lv, lt)), L_arr(new, lt)[m] == L_arr(lv, lt)[m]), patterns=[L_arr(lv, lt)[m]]))
            return new
        s.mutate_list(e.func.value, st, fn, e.lineno)
        return BoolVal(False), NONE

    def meth_extend(s, e, o, ot, st):
        b, tb = s.ev(e.args[0], st)
        b, tb = s.deref(b, tb, st)

        def fn(lv, lt):
            return s.list_concat(lv, lt, b, tb, st)[0]
        s.mutate_list(e.func.value, st, fn, e.lineno)
        return BoolVal(False), NONE

    def meth_writelines(s, e, o, ot, st):
        if ot != FILE:
            raise Unsupported('writelines on a non-file')
        x, tx = s.ev(e.args[0], st)
        n_ = simplify(L_len(x, tx)) if tx == LIST(STR) else None
        if n_ is None or not is_int_value(n_):
            raise Unsupported('writelines of a list of unknown length')
        w, tw = st.env['__written']
        for i in range(n_.as_long()):
            w = L_app(w, tw, simplify(L_arr(x, tx)[i]))
            st.env['__content'] = (Concat(st.env['__content'][0], simplify(L_arr(x, tx)[i])), STR)
        st.env['__written'] = (w, tw)
        return BoolVal(False), NONE

    def meth_copy(s, e, o, ot, st):
        lv, lt = s.deref(o, ot, st)
        return lv, lt

    def meth_pop(s, e, o, ot, st):
        if e.args:
            raise Unsupported('pop(i)')
        lv, lt = s.deref(o, ot, st)
        n = L_len(lv, lt)
        s.safe(st, 'pop-nonempty', n > 0, e.lineno)
        x = L_arr(lv, lt)[n - 1]
        s.mutate_list(e.func.value, st, lambda v, t: L_mk(t, L_arr(v, t), L_len(v, t) - 1), e.lineno)
        return x, lt.a[0]

    def meth_sort(s, e, o, ot, st):
        lv, lt = s.deref(o, ot, st)
        if lt.a[0] != INT:
            raise Unsupported('sort of non-int list')
        r = fresh('sorted', lt)
        n = L_len(lv, lt)
        a, b = fresh_int('a'), fresh_int('b')
        ra, la = L_arr(r, lt), L_arr(lv, lt)
        # assumed contract of list.sort (A-SORT): sorted permutation; stated as: same length, ascending,
        # same membership, and multiplicity-preserving through the Count spec function when it is declared
        st.pc.append(L_len(r, lt) == n)
        st.pc.append(ForAll([a, b], Implies(And(0 <= a, a < b, b < n), ra[a] <= ra[b])))
        x = fresh_int('x')
        st.pc.append(ForAll([x], Exists([a], And(0 <= a, a < n, ra[a] == x)) == Exists([b], And(0 <= b, b < n, la[b] == x))))
        if 'CountI' in SPEC:
            C = SPEC['CountI']['f']
            st.pc.append(ForAll([x], C(r, n, x) == C(lv, n, x)))
        st.pc.append(Implies(ForAll([a, b], Implies(And(0 <= a, a < b, b < n), la[a] != la[b])),
                             ForAll([a, b], Implies(And(0 <= a, a < b, b < n), ra[a] < ra[b]))))
        s.mutate_list(e.func.value, st, lambda v, t: r, e.lineno)
        return BoolVal(False), NONE

    def meth_remove(s, e, o, ot, st):
        raise Unsupported('list.remove in unbounded mode (no contract clause describes in-place removal during iteration)')

    # ---------------------------------------------------------------- comprehensions
    def comprehension(s, e, st):
        ordn = s.cur['_compnum'].get(id(e))
        spec_ = s.cur.get('comps', {}).get(ordn)
        if len(e.generators) == 1 and not e.generators[0].ifs and spec_ is None:
            g = e.generators[0]
            dom = s.iter_domain(g.iter, g.target, st)
            k = fresh_int('c')
            st2 = st.clone()
            st2.pc.append(And(0 <= k, k < dom['count']))
            c0 = next(Ty._fresh)
            dom['bind'](st2, k)
            n0 = len(s.obligs)
            v, t = s.ev(e.elt, st2)
            # safety obligations of the element expression hold for every k (k is fresh, i.e. universally quantified)
            rt = LIST(t)
            hyp = [c for c in st2.pc[len(st.pc):]]
            c1 = next(Ty._fresh)
            r = fresh('comp', rt)
            st.pc.append(L_len(r, rt) == If(dom['count'] >= 0, dom['count'], 0))
            body = L_arr(r, rt)[k] == v
            # symbols introduced while evaluating the element (the value of max(row), its witness position, ...) are chosen PER
            # element: under the quantifier over k they become functions of k (a constant shared by all elements would make the
            # fact vacuous for all but one of them)
            import re as _re
            from z3 import is_const, Z3_OP_UNINTERPRETED, Function as _Fn
            found = {}

            def _walk(x, seen):
                if x.get_id() in seen:
                    return
                seen.add(x.get_id())
                if is_const(x) and x.decl().kind() == Z3_OP_UNINTERPRETED:
                    m_ = _re.search(r'!(\d+)$', x.decl().name())
                    if m_ and c0 < int(m_.group(1)) < c1 and not x.eq(k):
                        found[x.decl().name()] = x
                for ch in x.children():
                    _walk(ch, seen)
            seen_ = set()
            for x in hyp + [body]:
                _walk(x, seen_)
            subs = [(x, _Fn(nm + '@k', IntSort(), x.sort())(k)) for nm, x in found.items()]
            if subs:
                hyp = [substitute(c, *subs) for c in hyp]
                body = substitute(body, *subs)
            rng_ = [c for c in hyp[:1]]          # the range of k is a condition; what the element's evaluation established is a fact
            facts_ = [c for c in hyp[1:]]
            st.pc.append(ForAll([k], Implies(And(*rng_), And(*(facts_ + [body])))))
            return r, rt
        if spec_ is None and len(e.generators) == 2 and not e.generators[0].ifs and not e.generators[1].ifs \
                and isinstance(e.generators[1].iter, ast.Name) and isinstance(e.generators[0].target, ast.Name) \
                and e.generators[1].iter.id == e.generators[0].target.id:
            return s.flatten_comp(e, st)
        if spec_ is None:
            raise Unsupported(f'list comprehension #{ordn} at line {e.lineno} needs a `comps` entry in the contract')
        if len(e.generators) != 1:
            raise Unsupported('nested comprehension with spec')
        g = e.generators[0]
        dom = s.iter_domain(g.iter, g.target, st)
        rt = spec_['type']

        def at(n_, state):
            state2 = state.clone()
            state2.env['_n'] = (n_, INT)
            sv_pol, sv_mode = s.pol, s.specmode
            s.pol, s.specmode = 0, True
            try:
                v, t = s.ev(s.parse(spec_['is']), state2)
            finally:
                s.pol, s.specmode = sv_pol, sv_mode
            return v
        # obligations: F(0) == [], and F(i+1) == F(i) ++ [elt] / F(i)
        if not s.specmode:
            s.oblige(st, f'comp-init#{ordn}', s.listeq_goal(at(IntVal(0), st), empty(rt), rt), e.lineno, 'comp')
            k = fresh_int('c')
            st2 = st.clone()
            st2.pc.append(And(0 <= k, k < dom['count']))
            dom['bind'](st2, k)
            conds = []
            for c in g.ifs:
                cv, ct = s.ev(c, st2)
                conds.append(s.truthy(cv, ct, st2))
            cond = And(*conds) if conds else BoolVal(True)
            sa = st2.clone(); sa.pc.append(cond)
            v, t = s.ev(e.elt, sa)
            v = s.coerce(v, t, rt.a[0])[0]
            for u in spec_.get('use', []):
                s.use_lemma(sa, u)
            s.oblige(sa, f'comp-step-keep#{ordn}', s.listeq_goal(at(k + 1, sa), L_app(at(k, sa), rt, v), rt), e.lineno, 'comp')
            sb = st2.clone(); sb.pc.append(Not(cond))
            for u in spec_.get('use', []):
                s.use_lemma(sb, u)
            s.oblige(sb, f'comp-step-drop#{ordn}', s.listeq_goal(at(k + 1, sb), at(k, sb), rt), e.lineno, 'comp')
        res = at(If(dom['count'] >= 0, dom['count'], 0), st)
        gname = s.cur.get('ghost_after_comp', {}).get(ordn)
        if gname:                   # ghost name for the comprehension's value (used by later hints)
            st.env[gname] = (res, rt)
        hc = s.cur.get('hint_after_comp', {}).get(ordn)
        if hc and not s.specmode:   # intermediate assertions about the comprehension's value: proved, then assumed
            for k, h in enumerate(hc.get('hints', [])):
                t2 = st.clone()
                for u in hc.get('use', {}).get(k, []):
                    s.use_lemma(t2, u)
                s.oblige(t2, f'hint-comp#{ordn}.{k}', s.spec_eval(h, t2, 1), e.lineno, 'hint')
                st.pc.append(s.spec_eval(h, st, -1))
        return res, rt

    def flatten_comp(s, e, st):
        """[elt for sub in L for x in sub]: result[FlatOff(L, a) + b] = elt(L[a][b]), len = FlatOff(L, len(L)); FlatOff is the
        prefix sum of the row lengths (defining equation unfolded like any spec function)"""
        g0, g1 = e.generators
        L, tL = s.ev(g0.iter, st)
        if tL.k != 'list' or tL.a[0].k != 'list':
            raise Unsupported('flatten of a non-nested list')
        row_t = tL.a[0]
        nm = 'FlatOff_' + sha(repr(tL))
        if nm not in SPEC:
            f = Function(nm, sort(tL), IntSort(), IntSort())
            SPEC[nm] = dict(f=f, args=[tL, INT], ret=INT, unfold=lambda L_, a_, f=f, tL=tL, row_t=row_t: f(L_, a_) == If(a_ <= 0, IntVal(0), f(L_, a_ - 1) + L_len(L_arr(L_, tL)[a_ - 1], row_t)))
        F = SPEC[nm]['f']
        a, b = Int(f'a!f{next(Ty._fresh)}'), Int(f'b!f{next(Ty._fresh)}')
        st2 = st.clone()
        row = L_arr(L, tL)[a]
        s.assign(g0.target, row, row_t, st2, None)
        s.assign(g1.target, L_arr(row, row_t)[b], row_t.a[0], st2, None)
        v, t = s.ev(e.elt, st2)
        rt = LIST(t)
        r = fresh('flat', rt)
        st.pc.append(L_len(r, rt) == F(L, L_len(L, tL)))
        st.pc.append(ForAll([a, b], Implies(And(0 <= a, a < L_len(L, tL), 0 <= b, b < L_len(row, row_t)), L_arr(r, rt)[F(L, a) + b] == v),
                            patterns=[L_arr(row, row_t)[b]]))      # trigger: a mention of the source element L[a][b]
        st.env['__flat_src'] = (L, tL)
        return r, rt

    def listeq_goal(s, a, b, t):
        if s.cur.get('comp_structural', True):
            return a == b
        sv = s.pol
        s.pol = 1
        try:
            return s.eqlist(a, t, b, t)
        finally:
            s.pol = sv

    # ---------------------------------------------------------------- iteration domains
    def iter_domain(s, it, target, st):
        """returns dict(count=z3 Int (possibly state-dependent callable), bind=fn(state, i)) for index loops"""
        def assign_target(tg, v, t, state):
            s.assign(tg, v, t, state, None)
        if isinstance(it, ast.Call) and isinstance(it.func, ast.Name) and it.func.id == 'range':
            args = [s.ev(a, st) for a in it.args]
            if len(args) == 1:
                lo, hi = IntVal(0), args[0][0]
            elif len(args) == 2:
                lo, hi = args[0][0], args[1][0]
            else:
                raise Unsupported('range with step')
            return dict(count=hi - lo, bind=lambda state, i: assign_target(target, lo + i, INT, state), dyn=None)
        if isinstance(it, ast.Call) and isinstance(it.func, ast.Name) and it.func.id == 'enumerate':
            inner = s.iter_domain(it.args[0], target.elts[1], st)

            def bind(state, i):
                assign_target(target.elts[0], i, INT, state)
                inner['bind'](state, i)
            return dict(count=inner['count'], bind=bind, dyn=inner.get('dyn'))
        if isinstance(it, ast.Call) and isinstance(it.func, ast.Name) and it.func.id == 'zip':
            if not isinstance(target, ast.Tuple) or len(target.elts) != len(it.args):
                raise Unsupported('zip target')
            inners = [s.iter_domain(a, tg, st) for a, tg in zip(it.args, target.elts)]
            cnt = inners[0]['count']
            for d in inners[1:]:
                cnt = If(d['count'] < cnt, d['count'], cnt)

            def bind(state, i):
                for d in inners:
                    d['bind'](state, i)
            return dict(count=cnt, bind=bind, dyn=None)
        if isinstance(it, ast.Call) and isinstance(it.func, ast.Attribute) and it.func.attr == 'items':
            d, td = s.ev(it.func.value, st)
            if td.k != 'odict' or not isinstance(target, ast.Tuple) or len(target.elts) != 2:
                raise Unsupported('items() of a non-ordered-dict')
            Sd = Ty.S(td)
            keys = Sd.keys(d)

            def bind(state, i):
                kk = L_arr(keys, LIST(STR))[i]
                assign_target(target.elts[0], kk, STR, state)
                assign_target(target.elts[1], Sd.val(d)[kk], td.a[0], state)
            return dict(count=L_len(keys, LIST(STR)), bind=bind, dyn=None)
        v, t = s.ev(it, st)
        if t == PYVAL:
            P = s.pv()
            s.safe(st, 'typed:iterate-a-list', P.is_pL(v), it.lineno)
            v, t = P.lref(v), LREF(PYVAL)
        if t.k == 'lref':
            e0 = t.a[0]

            def cnt_dyn(state):
                return L_len(state.lheap[e0][v], LIST(e0))

            def bind(state, i):
                assign_target(target, L_arr(state.lheap[e0][v], LIST(e0))[i], e0, state)
            return dict(count=cnt_dyn(st), bind=bind, dyn=cnt_dyn)
        if t.k == 'opt' and t.a[0].k == 'list':
            S = Ty.S(t)
            s.safe(st, 'iter-None', Not(S.isnone(v)), it.lineno)
            v, t = S.val(v), t.a[0]
        if t.k != 'list':
            raise Unsupported(f'iteration over {t}')
        if v is None:
            return dict(count=IntVal(0), bind=lambda state, i: None, dyn=None)
        return dict(count=L_len(v, t), bind=lambda state, i: assign_target(target, L_arr(v, t)[i], t.a[0], state), dyn=None)

    # ---------------------------------------------------------------- assignment
    def declared(s, name):
        d = s.cur['locals'].get(name)
        if d is None:
            old = s.cur.get('_alias_rev', {}).get(name)      # a local renamed since the contract was written (same position, see run())
            if old is not None:
                d = s.cur['locals'].get(old)
        return d

    def assign(s, tg, v, t, st, line):
        if isinstance(tg, ast.Name):
            dt = s.declared(tg.id)
            if dt is not None:
                v, t = s.coerce(v, t, dt, st)
            elif v is None:
                raise Unsupported(f'empty list assigned to undeclared local {tg.id}: declare its type in `locals`')
            elif tg.id in st.env and st.env[tg.id][1] != t:
                ot = st.env[tg.id][1]
                if {ot, t} <= {INT, REAL}:
                    raise Unsupported(f'local {tg.id} changes numeric type: declare it REAL in `locals`')
                raise Unsupported(f'local {tg.id} changes type {ot} -> {t}')
            if t == INT and not s.specmode and _is_nonlinear_product(v):
                nm_ = fresh(tg.id, INT)          # name a product of variables once: later offsets k * n are then linear in that name
                st.pc.append(nm_ == v)
                v = nm_
            st.env[tg.id] = (v, t)
            st.unbound.discard(tg.id)
            if '__b_' + tg.id in st.env:
                st.env['__b_' + tg.id] = (BoolVal(True), BOOL)
            return
        if isinstance(tg, (ast.Tuple, ast.List)):
            if t == TRANS:
                if len(tg.elts) != 2:
                    raise Unsupported('unpack transition')
                if s.cur.get('slot0', 'lab') == 'lab':
                    s.assign(tg.elts[0], t_lab(v), STR, st, line)
                else:
                    s.assign(tg.elts[0], t_prob(v), REAL, st, line)
                s.assign(tg.elts[1], t_tgt(v), INT, st, line)
                return
            if t.k == 'tup' and len(t.a) == len(tg.elts):
                for k, el in enumerate(tg.elts):
                    s.assign(el, tup_get(v, t, k), t.a[k], st, line)
                return
            if t == PYVAL and len(tg.elts) == 2:
                # a, b = v for a dynamically typed v: raises unless v is a sequence of exactly two elements (claimed here only for tuples,
                # which is what the validation code has established when it unpacks)
                P = s.pv()
                s.safe(st, 'typed:unpack-a-2-tuple', And(P.is_pT(v), P.tlen(v) == 2), line)
                s.assign(tg.elts[0], P.t0(v), PYVAL, st, line)
                s.assign(tg.elts[1], P.t1(v), PYVAL, st, line)
                return
            if t.k == 'lref':
                v, t = s.deref(v, t, st)
            if t.k == 'list' and v is not None:
                # a, b, c = xs for a list value: ValueError unless it has exactly that many elements
                s.safe(st, 'unpack-length', L_len(v, t) == len(tg.elts), line)
                for k, el in enumerate(tg.elts):
                    s.assign(el, L_arr(v, t)[k], t.a[0], st, line)
                return
            raise Unsupported(f'unpack {t}')
        if isinstance(tg, ast.Attribute):
            o, ot = s.ev(tg.value, st)
            ft = s.field_type(tg.attr, ot)
            if tg.attr not in st.heap:
                raise Unsupported(f'field {tg.attr} not in heap')
            if ft.k == 'lref' and (t.k == 'list' or v is None):
                e0 = ft.a[0]
                lv = s.coerce(v, t, LIST(e0))[0] if v is None or t != LIST(e0) else v
                r = st.alloc_l
                st.alloc_l = st.alloc_l + 1
                st.lheap[e0] = Store(st.lheap[e0], r, lv)
                st.heap[tg.attr] = Store(st.heap[tg.attr], o, r)
                return
            v, t = s.coerce(v, t, ft)
            st.heap[tg.attr] = Store(st.heap[tg.attr], o, v)
            return
        if isinstance(tg, ast.Subscript) and isinstance(tg.slice, ast.Constant) and isinstance(tg.slice.value, str):
            b0, tb0 = s.ev(tg.value, st)
            if tb0.k == 'ref':         # obj["key"] = v on a dict-like heap object with a fixed key set: a field store
                fname = s.cur.get('dict_fields', {}).get(tb0.a[0], {}).get(tg.slice.value)
                if fname is None:
                    raise Unsupported(f'unknown key {tg.slice.value!r} of {tb0}')
                ft = s.field_type(fname, tb0)
                st.heap[fname] = Store(st.heap[fname], b0, s.coerce(v, t, ft, st)[0])
                return
        if isinstance(tg, ast.Subscript):
            i, _ = s.ev(tg.slice, st)
            base = tg.value

            def upd(bv, bt):
                if bt.k == 'list':
                    n = L_len(bv, bt)
                    s.safe(st, 'store-index', And(-n <= i, i < n), line)
                    s.safe(st, 'store-index>=0', i >= 0, line)
                    return L_mk(bt, Store(L_arr(bv, bt), i, s.coerce(v, t, bt.a[0])[0]), n)
                if bt.k == 'dict':
                    S = Ty.S(bt)
                    xv = s.coerce(v, t, bt.a[1])[0]
                    return S.mk(Store(S.has(bv), i, BoolVal(True)), Store(S.val(bv), i, xv))
                if bt.k == 'odict':
                    S = Ty.S(bt)
                    xv = s.coerce(v, t, bt.a[0], st)[0]
                    keys = S.keys(bv)
                    return S.mk(If(S.has(bv)[i], keys, L_app(keys, LIST(STR), i)), Store(S.has(bv), i, BoolVal(True)), Store(S.val(bv), i, xv))
                raise Unsupported(f'subscript store into {bt}')
            s.mutate_list(base, st, upd, line)
            return
        raise Unsupported('assignment target')

    # ---------------------------------------------------------------- statements
    def st_Continue(s, n, st):
        st.env['__jump'] = ('continue', NONE)
        return [st]

    def st_Break(s, n, st):
        st.env['__jump'] = ('break', NONE)
        return [st]

    def block(s, body, st):
        cur = [st]
        for n in body:
            nxt = []
            for t in cur:
                if '__jump' in t.env:       # a path that hit `continue` / `break` skips the rest of the loop body
                    nxt.append(t)
                else:
                    nxt += s.stmt(n, t)
            cur = nxt
            if len(cur) > s.cur.get('max_paths', 400):
                raise Unsupported(f'path explosion ({len(cur)} paths) in {s.cur["name"]}')
        return cur

    def stmt(s, n, st):
        m = getattr(s, 'st_' + type(n).__name__, None)
        if m is None:
            raise Unsupported(f'statement {type(n).__name__} at line {n.lineno}')
        return m(n, st)

    def is_dropped_call(s, c):
        """logging.* calls are dropped (DESIGN 2.1) after a purity scan of their arguments"""
        loggers = s.module_loggers()
        if isinstance(c, ast.Call) and isinstance(c.func, ast.Attribute) and isinstance(c.func.value, ast.Name) \
                and (c.func.value.id == 'logging' or c.func.value.id in loggers) and c.func.attr in ('info', 'debug', 'error', 'warning', 'critical') \
                and not c.keywords:
            for a in c.args:
                for x in ast.walk(a):
                    if isinstance(x, ast.Call):
                        raise Unsupported(f'logging argument with a call at line {c.lineno}')
            return True
        return False

    def module_loggers(s):
        """module-level names of the current module bound exactly once, to logging.getLogger(...): calls of their logging methods are
        dropped like calls of logging.* itself"""
        mod = s.modules.get(s.cur['name'].split('.')[0]) if getattr(s, 'cur', None) else None
        if mod is None:
            return set()
        if not hasattr(mod, '_loggers'):
            out = set()
            for n in mod.tree.body:
                if isinstance(n, ast.Assign) and isinstance(n.value, ast.Call) and ast.unparse(n.value.func) == 'logging.getLogger':
                    for t in n.targets:
                        if isinstance(t, ast.Name) and sum(1 for x in ast.walk(mod.tree) if isinstance(x, ast.Name) and x.id == t.id and isinstance(x.ctx, ast.Store)) == 1:
                            out.add(t.id)
            mod._loggers = out
        return mod._loggers

    def logging_args_safe(s, c, st):
        """the arguments of a dropped logging call are still EVALUATED (on a copy of the state, their values unused): an argument that
        can raise (a bad subscript, str + int) yields its safety obligation or makes the contract inapplicable"""
        if s.specmode:
            return
        for a in c.args:
            t = st.clone()
            n0 = len(s.obligs)
            try:
                s.ev(a, t)
            except Unsupported as e:
                if os.environ.get('PYVC_DEBUG_LOGARGS'):
                    print('LOGARG', s.cur['name'], ast.unparse(a)[:60], e, file=sys.stderr)
                del s.obligs[n0:]
                if 'coerce' in str(e) or 'operand' in str(e) or 'type mismatch' in str(e):
                    raise Unsupported(f'logging argument {ast.unparse(a)[:40]!r} at line {c.lineno}: {e}')

    def st_Expr(s, n, st):
        c = n.value
        if isinstance(c, ast.Constant):
            return [st]
        if s.is_dropped_call(c):
            s.logging_args_safe(c, st)
            return [st]
        if isinstance(c, ast.Call):
            if isinstance(c.func, ast.Attribute) and c.func.attr == 'append' and len(c.args) == 1 and isinstance(c.args[0], ast.Call) \
                    and isinstance(c.args[0].func, ast.Name) and c.args[0].func.id in s.cur.get('constructors', {}):
                # x.append(Cls(...)): evaluate the constructor call first (it may raise), then append its result
                tmp = ast.copy_location(ast.Name(id='__hoisted', ctx=ast.Store()), c)
                outs = s.call_stmt(c.args[0], tmp, st, n.lineno)
                res = []
                for t in outs:
                    c2 = ast.copy_location(ast.Call(func=c.func, args=[ast.copy_location(ast.Name(id='__hoisted', ctx=ast.Load()), c)], keywords=[]), c)
                    res += s.call_stmt(c2, None, t, n.lineno)
                return res
            return s.call_stmt(c, None, st, n.lineno)
        raise Unsupported('expression statement')

    def st_Pass(s, n, st):
        return [st]

    def st_Assert(s, n, st):
        """assert c: raises AssertionError unless c holds -- a safety obligation like any other operation that can raise"""
        c, tc = s.ev(n.test, st)
        s.safe(st, 'assert', s.truthy(c, tc, st), n.lineno)
        return [st]

    def st_Assign(s, n, st):
        if len(n.targets) != 1:
            raise Unsupported('chained assignment')
        cut = s.cur.get('cut_before_assign')
        if cut and isinstance(n.targets[0], ast.Name) and s.cur.get('_alias_rev', {}).get(n.targets[0].id, n.targets[0].id) == cut:
            # the contract covers the function up to this statement (the rest is outside this contract's scope)
            if isinstance(n.value, ast.Dict) and all(isinstance(k_, ast.Constant) and isinstance(k_.value, str) for k_ in n.value.keys):
                # the assigned value is a dict literal with constant keys: its VALUES are evaluated (they are what the function goes on to
                # use) and are visible to the cut conditions as cut('<key>'), whatever temporaries the code does or does not use for them
                for k_, v_ in zip(n.value.keys, n.value.values):
                    st.env['__cut_' + k_.value] = s.ev(v_, st)
            for k, post in enumerate(s.cur.get('ensures_at_cut', [])):
                s.oblige(st, f'at-cut#{k}', s.spec_eval(post, st, 1), n.lineno, 'post')
            s.frame_obligations(st, n.lineno, 'cut')
            s.cur['_cut_reached'] = True
            return []
        if isinstance(n.value, ast.Call):
            return s.call_stmt(n.value, n.targets[0], st, n.lineno)
        v, t = s.ev(n.value, st)
        s.assign(n.targets[0], v, t, st, n.lineno)
        if isinstance(n.targets[0], ast.Name):
            key_ = s.cur.get('_alias_rev', {}).get(n.targets[0].id, n.targets[0].id)       # the name the contract knows this local by
            for u in s.cur.get('use_after_assign', {}).get(key_, []):      # lemma instances available from here on
                n0_ = len(st.pc)
                s.use_lemma(st, u)
                s.cur.setdefault('_kept_hyps', []).extend(st.pc[n0_:])
            for k_, h in enumerate(s.cur.get('hints_after_assign', {}).get(key_, [])):   # proved here, where the context is small
                s.hint(st, h, f'hint-assign:{key_}#{k_}', n.lineno)
        return [st]

    def st_AugAssign(s, n, st):
        tgt_load = ast.copy_location(ast.fix_missing_locations(_as_load(n.target)), n)
        if isinstance(n.op, ast.Add):
            cur, tcur = s.ev(tgt_load, st)
            if tcur.k == 'list':     # list += list : in place extend (value model: same as rebinding)
                if isinstance(n.value, ast.Call) and isinstance(n.value.func, ast.Name) and s.resolve_function(n.value.func.id):
                    # x += f(...): evaluate the call as a statement (its after_call assertions apply), then extend
                    tmp = ast.copy_location(ast.Name(id='__addend', ctx=ast.Store()), n)
                    outs = s.call_stmt(n.value, tmp, st, n.lineno)
                    res = []
                    for t_ in outs:
                        b, tb = t_.env['__addend']
                        cur2, tcur2 = s.ev(tgt_load, t_)
                        v, t = s.list_concat(cur2, tcur2, b, tb, t_)
                        s.assign(n.target, v, t, t_, n.lineno)
                        occ_ = s.cur.setdefault('_extend_occ', [0])
                        hints_ = s.cur.get('after_extend', {}).get(occ_[0], [])
                        if hints_:
                            # each assertion is proved from a small context: quantifier-free facts, lemma instances registered with
                            # use_after_assign, what was learnt since the previous extension (callee postcondition, concatenation facts)
                            # and the assertions proved after the previous extension
                            mark = s.cur.get('_extend_mark', 0)
                            small = [h0 for h0 in t_.pc[:mark] if not _has_quant(h0)] + s.cur.get('_kept_hyps', []) + t_.pc[mark:]
                            proved_ = []
                            for k_, h in enumerate(hints_):
                                t2 = t_.clone()
                                t2.pc = list(small)
                                s.oblige(t2, f'hint-extend#{occ_[0]}.{k_}', s.spec_eval(h, t2, 1), n.lineno, 'hint')
                                hv = s.spec_eval(h, t_, -1)
                                proved_.append(hv)
                            t_.pc += proved_
                            s.cur['_kept_hyps'] = [h0 for h0 in s.cur.get('_kept_hyps', []) if h0.get_id() not in {p_.get_id() for p_ in s.cur.get('_last_hints', [])}] + proved_
                            s.cur['_last_hints'] = proved_
                            s.cur['_extend_mark'] = len(t_.pc)
                        occ_[0] += 1
                        res.append(t_)
                    return res
                b, tb = s.ev(n.value, st)
                v, t = s.list_concat(cur, tcur, b, tb, st)
                s.assign(n.target, v, t, st, n.lineno)
                return [st]
        v, t = s.ev(ast.copy_location(ast.BinOp(tgt_load, n.op, n.value), n), st)
        s.assign(n.target, v, t, st, n.lineno)
        return [st]

    def only_logging(s, body):
        return all(isinstance(x, ast.Expr) and (isinstance(x.value, ast.Constant) or s.is_dropped_call(x.value))
                   or (isinstance(x, ast.For) and s.only_logging(x.body) and not x.orelse) for x in body)

    def st_If(s, n, st):
        if any(isinstance(x, ast.Name) and x.id == 'logging' for x in ast.walk(n.test)):
            # `if logging.getLogger().getEffectiveLevel() == logging.DEBUG:` -- the condition is havocked (DESIGN 2.1)
            c = fresh('loglevel', BOOL)
            a = st.clone(); a.pc.append(c)
            b = st; b.pc.append(Not(c))
            return s.block(n.body, a) + s.block(n.orelse, b)
        c, tc = s.ev(n.test, st)
        c = s.truthy(c, tc, st)
        out = []
        cs = simplify(c)
        # a test that is a literal constant on this path (a flag bound by an unrolled `for flag in [True, False]`): the dead branch is
        # not explored at all -- it has no executions, hence no obligations, and it must not count as an (infeasible) path of the function
        if is_true(cs):
            return s.block(n.body, st)
        if is_false(cs):
            return s.block(n.orelse, st)
        a = st.clone(); a.pc.append(c)
        b = st; b.pc.append(Not(c))
        out += s.block(n.body, a)
        out += s.block(n.orelse, b)
        return out

    def st_Return(s, n, st):
        if n.value is None:
            v, t = BoolVal(False), NONE
        else:
            v, t = s.ev(n.value, st)
        if s.cur.get('_inline'):
            s.cur['_inline'][-1]['returns'].append((st, v, t))
            return []
        s.exit_normal(st, v, t, n.lineno)
        return []

    def exit_normal(s, st, v, t, line):
        c = s.cur
        if c.get('calls_exactly') is not None and not c.get('_inline'):
            # a wiring function: on every path that returns normally, exactly these contracted callees were called, each this many
            # times (the ORDER of independent calls is not the contract's business: what must precede what is carried by the facts the
            # call_asserts demand at each call). A different collection means the contract no longer describes this function
            # (undecided) -- it is not by itself a refutation of anything a property states, so it is never reported as refuted
            if sorted(c['calls_exactly']) != sorted(st.calls):
                raise ContractError(f"{c['name']}: a returning path applies the callees {list(st.calls)}, the wiring contract expects {list(c['calls_exactly'])}")
            s.oblige(st, 'calls-exactly', BoolVal(True), line, 'post')
        rt = c.get('result')
        if rt is not None:
            v, t = s.coerce(v, t, rt)
        st.env['result'] = (v, t)
        br = c.get('before_return')
        proved_hints = []
        if br:      # a chain of intermediate assertions: each proved (with its lemma instances), then assumed
            for k, h in enumerate(br.get('hints', [])):
                t2 = st.clone()
                iso = br.get('isolate', {}).get(k)
                if iso is not None:      # prove this step from the named earlier steps only (fewer hypotheses is always sound)
                    wf_ids = s.__dict__.get('_wf_ids', set())
                    t2.pc = [h0 for h0 in st.pc if not _has_quant(h0) or h0.get_id() in wf_ids] + [proved_hints[j] for j in iso]
                for u in br.get('use', {}).get(k, []):
                    s.use_lemma(t2, u)
                s.oblige(t2, f'hint-return#{k}', s.spec_eval(h, t2, 1), line, 'hint')
                hv = s.spec_eval(h, st, -1)
                proved_hints.append(hv)
                st.pc.append(hv)
        up = c.get('use_post', {})
        for k, post in enumerate(c['ensures']):
            extra = []
            for u in (up.get(k, []) + up.get('all', []) if isinstance(up, dict) else up):     # lemma instances for this clause
                t2 = st.clone()
                try:
                    s.use_lemma(t2, u)
                except Unsupported:
                    continue            # the instance mentions a ghost that does not exist on this (early) return path: not used
                extra += t2.pc[len(st.pc):]
            s.oblige(st, f'post#{k}', s.spec_eval(post, st, 1), line, 'post', extra=extra)
            if br and br.get('hints'):
                # tried first from a small context: quantifier-free facts, list well-formedness and the proved chain of assertions
                wf_ids = s.__dict__.get('_wf_ids', set())
                s.obligs[-1].small = [h0 for h0 in st.pc if not _has_quant(h0) or h0.get_id() in wf_ids or any(h0.eq(p_) for p_ in proved_hints)]
        s.frame_obligations(st, line, 'ret')

    def frame_obligations(s, st, line, tag):
        c = s.cur
        mod = c.get('modifies', {})
        old = st.old
        for f in st.heap:
            if f.startswith('__') or f not in old.heap:       # (a field only ever read, added lazily: see ev_Attribute)
                continue
            if f not in mod:
                if st.heap[f] is not old.heap[f]:
                    s.oblige(st, f'frame:{f}@{tag}', st.heap[f] == old.heap[f], line, 'frame')
            elif mod[f] != 'all':
                o = fresh('o!sk', INT)
                excl = []
                for ex in mod[f]:
                    excl.append(s.spec_frame_set(ex, o, st))
                # proved from a small context: quantifier-free facts plus the quantified facts that mention a version of this field's
                # heap array (the callees' frame conditions); dropping hypotheses is always sound
                s.oblige(st, f'frame:{f}@{tag}', Implies(Not(Or(*excl)) if excl else BoolVal(True), st.heap[f][o] == old.heap[f][o]), line, 'frame')
                s.obligs[-1].small = [h0 for h0 in st.pc if not _has_quant(h0) or _mentions_prefix(h0, ('H_' + f, 'alloc_o'))]
        lm = mod.get('__lists__', [])
        if lm != 'all':
            for e0 in st.lheap:
                if st.lheap[e0] is old.lheap[e0]:
                    continue
                r = fresh('r!sk', INT)
                excl = [s.spec_frame_set(ex, r, st) for ex in lm]
                s.oblige(st, f'frame:lists@{tag}', Implies(And(0 <= r, r < old.alloc_l, Not(Or(*excl)) if excl else BoolVal(True)),
                                                          st.lheap[e0][r] == old.lheap[e0][r]), line, 'frame')

    def spec_frame_set(s, ex, o, st):
        """a modifies entry is an expression (evaluated in the OLD state) denoting one object, or
        'x for k in lo..hi' style written as a predicate 'lambda o: ...' -> here: string with free variable `_o`"""
        oldst = st.old.clone()
        oldst.pc = st.pc
        oldst.env = dict(oldst.env)
        oldst.env['_o'] = (o, INT)
        sv_pol, sv_mode = s.pol, s.specmode
        s.pol, s.specmode = 0, True
        try:
            v, t = s.ev(s.parse(ex), oldst)
        finally:
            s.pol, s.specmode = sv_pol, sv_mode
        if t == BOOL:
            return v
        return v == o

    def st_Raise(s, n, st):
        exc = n.exc
        if not (isinstance(exc, ast.Call) and isinstance(exc.func, ast.Name)):
            raise Unsupported('raise form')
        et = exc.func.id
        msg = None
        if exc.args:
            try:
                msg, _ = s.ev(exc.args[0], st)
            except Unsupported:
                msg = None
        return s.do_raise(st, et, msg, n.lineno)

    def do_raise(s, st, et, msg, line):
        if s.cur.get('_try'):
            handler = s.cur['_try'][-1]
            if et in handler['catches']:
                t2 = st
                t2.env['__exc_msg'] = (msg if msg is not None else fresh('msg', STR), STR)
                handler['states'].append(t2)
                return []
        s.exit_raise(st, et, msg, line)
        return []

    def exit_raise(s, st, et, msg, line):
        c = s.cur
        r = c.get('raises')
        if not r or et not in r.get('exc', ['ValueError']):
            s.oblige(st, f'raises:{et}-not-admitted@{line}', BoolVal(False), line, 'raises')
            return
        for k, cond in enumerate(r.get('when', [])):
            s.oblige(st, f'raises-when#{k}@{line}', s.spec_eval(f'old({cond})', st, 1), line, 'raises')
        if msg is not None:
            st.env['exc_msg'] = (msg, STR)
        for k, post in enumerate(r.get('ensures', [])):
            s.oblige(st, f'raises-post#{k}@{line}', s.spec_eval(post, st, 1), line, 'raises')
        s.frame_obligations(st, line, f'raise{line}')

    def st_Try(s, n, st):
        if n.finalbody or n.orelse or len(n.handlers) != 1:
            raise Unsupported('try form')
        h = n.handlers[0]
        if not isinstance(h.type, ast.Name):
            raise Unsupported('except form')
        rec = dict(catches=[h.type.id], states=[])
        s.cur.setdefault('_try', []).append(rec)
        try:
            normal = s.block(n.body, st)
        finally:
            s.cur['_try'].pop()
        out = list(normal)
        for t in rec['states']:
            if h.name:
                t.env[h.name] = t.env['__exc_msg']
            out += s.block(h.body, t)
        return out

    def st_With(s, n, st):
        """with open(path, mode) as f: the file is a ghost -- __path, __mode, and for writing the list of written strings
        (__written); for reading, f.read() returns the uninterpreted content of that path"""
        if len(n.items) != 1:
            raise Unsupported('with form')
        it = n.items[0]
        c = it.context_expr
        if not (isinstance(c, ast.Call) and isinstance(c.func, ast.Name) and c.func.id == 'open' and isinstance(it.optional_vars, ast.Name) and len(c.args) == 2):
            raise Unsupported('with form')
        path, tp = s.ev(c.args[0], st)
        mode, tm = s.ev(c.args[1], st)
        if tp != STR or tm != STR:
            raise Unsupported('open arguments')
        st.env['__path'] = (path, STR)
        st.env['__mode'] = (mode, STR)
        st.env['__written'] = (empty(LIST(STR)), LIST(STR))
        st.env['__content'] = (StringVal(""), STR)        # what the file holds: the concatenation of everything written
        st.env[it.optional_vars.id] = (IntVal(1), FILE)
        if '__b_' + it.optional_vars.id in st.env:
            st.env['__b_' + it.optional_vars.id] = (BoolVal(True), BOOL)
        return s.block(n.body, st)

    def bi_open(s, e, st):
        """f = open(path, mode) outside a with statement: the same ghost file"""
        if len(e.args) != 2 or e.keywords:
            raise Unsupported('open form')
        path, tp = s.ev(e.args[0], st)
        mode, tm = s.ev(e.args[1], st)
        if tp != STR or tm != STR:
            raise Unsupported('open arguments')
        st.env['__path'] = (path, STR)
        st.env['__mode'] = (mode, STR)
        st.env['__written'] = (empty(LIST(STR)), LIST(STR))
        st.env['__content'] = (StringVal(""), STR)
        return IntVal(1), FILE

    def meth_close(s, e, o, ot, st):
        if ot != FILE:
            raise Unsupported('close on a non-file')
        return BoolVal(False), NONE

    def meth_write(s, e, o, ot, st):
        if ot != FILE:
            raise Unsupported('write on a non-file')
        x, tx = s.ev(e.args[0], st)
        if tx != STR:
            raise Unsupported('write of a non-string')
        w, tw = st.env['__written']
        st.env['__written'] = (L_app(w, tw, x), tw)
        st.env['__content'] = (Concat(st.env['__content'][0], x), STR)
        return BoolVal(False), NONE

    def meth_read(s, e, o, ot, st):
        if ot != FILE:
            raise Unsupported('read on a non-file')
        if 'CONTENT' not in SPEC:
            SPEC['CONTENT'] = dict(f=Function('CONTENT', Ty.StringSort(), Ty.StringSort()), args=[STR], ret=STR, unfold=None)
        return SPEC['CONTENT']['f'](st.env['__path'][0]), STR

    def bi_eval(s, e, st):
        v, t = s.ev(e.args[0], st)
        if 'EVAL' not in SPEC:
            SPEC['EVAL'] = dict(f=Function('EVAL', Ty.StringSort(), sort(PYVAL)), args=[STR], ret=PYVAL, unfold=None)
        return SPEC['EVAL']['f'](v), PYVAL

    # ---------------------------------------------------------------- loops
    def loop_spec(s, n):
        ordn = s.cur['_loopnum'][id(n)]
        sp = s.cur.get('loops', {}).get(ordn)
        if sp is None:
            raise ContractError(f'loop #{ordn} (line {n.lineno}) of {s.cur["name"]} has no invariant in the contract')
        return ordn, sp

    def assigned_names(s, body):
        out = set()
        for x in ast.walk(ast.Module(body=list(body), type_ignores=[])):
            if isinstance(x, ast.Name) and isinstance(x.ctx, ast.Store):
                out.add(x.id)
            if isinstance(x, ast.Call) and isinstance(x.func, ast.Attribute) and x.func.attr in ('write', 'writelines'):
                out.add('__written')
                out.add('__content')
            if isinstance(x, ast.Call) and isinstance(x.func, ast.Attribute) and x.func.attr in ('append', 'pop', 'sort', 'remove', 'extend', 'insert', 'clear', 'reverse'):
                b = x.func.value
                while isinstance(b, (ast.Subscript, ast.Attribute)):
                    b = b.value
                if isinstance(b, ast.Name):
                    out.add(b.id)
            if isinstance(x, (ast.Assign, ast.AugAssign)):
                for tg in (x.targets if isinstance(x, ast.Assign) else [x.target]):
                    b = tg
                    while isinstance(b, (ast.Subscript,)):
                        b = b.value
                    if isinstance(b, ast.Name):
                        out.add(b.id)
        return out

    def heap_effects(s, body, st=None):
        """fields and list heaps possibly written by `body`: syntactic stores plus callees' modifies"""
        fields, lists = set(), False
        for x in ast.walk(ast.Module(body=list(body), type_ignores=[])):
            if isinstance(x, ast.Attribute) and isinstance(x.ctx, ast.Store):
                fields.add(x.attr)
                ft = s.fields.get(x.attr)
                if ft is not None and not callable(ft) and ft.k == 'lref':
                    lists = True
            if isinstance(x, ast.Call):
                if isinstance(x.func, ast.Attribute) and x.func.attr in ('append', 'pop', 'sort', 'remove', 'extend', 'insert', 'clear', 'reverse'):
                    b = x.func.value
                    while isinstance(b, ast.Subscript):
                        b = b.value
                    if isinstance(b, ast.Attribute):
                        lists = True
                        fields.add(b.attr)
                    elif isinstance(b, ast.Name):
                        bt = (st.env[b.id][1] if st is not None and b.id in st.env else s.declared(b.id))
                        if bt is None or bt.k == 'lref' or (bt.k == 'list' and bt.a[0].k == 'lref'):
                            lists = True    # the name holds (or may hold) a reference to a heap list
                q = None
                if isinstance(x.func, ast.Name):
                    q = [s.resolve_function(x.func.id)]
                elif isinstance(x.func, ast.Attribute):
                    q = [k for k in s.contracts if k.endswith('.' + x.func.attr)]
                for k in q or []:
                    if k and k in s.contracts:
                        m = s.contracts[k].get('modifies', {})
                        for f in m:
                            if f == '__lists__':
                                lists = True
                            else:
                                fields.add(f)
                        if s.contracts[k].get('allocates'):
                            lists = True
        return fields, lists

    def havoc(s, st, names, fields, lists, ghost_decl):
        for v in sorted(names):
            if '__b_' + v in st.env and not is_true(simplify(st.env['__b_' + v][0])):
                st.env['__b_' + v] = (fresh('bound_' + v, BOOL), BOOL)     # bound or not after an unknown number of iterations
            if v in st.env:
                t = st.env[v][1]
            else:
                t = s.declared(v)
                if t is None:
                    continue    # first bound inside the loop: stays unbound outside
            st.env[v] = (fresh(v, t), t)
            st.pc += s.wf_facts(st.env[v][0], t)
        for f in sorted(fields):
            if f in st.heap:
                ft = ARR(INT, s.field_type(f, None))
                st.heap[f] = fresh('H_' + f, ft)
                st.pc += s.wf_facts(st.heap[f], ft)
        if lists:
            for e0 in list(st.lheap):
                st.lheap[e0] = fresh('LH', ARR(INT, LIST(e0)))
                st.pc += s.wf_facts(st.lheap[e0], ARR(INT, LIST(e0)))
            na = fresh_int('alloc_l')
            st.pc.append(na >= st.alloc_l)
            st.alloc_l = na
        for g in ghost_decl:
            st.env[g[0]] = (fresh(g[0], g[1]), g[1])
            st.pc += s.wf_facts(st.env[g[0]][0], g[1])

    def run_ghosts(s, sp, st, when):
        for name, typ, expr in sp.get(when, []):
            sv_pol, sv_mode = s.pol, s.specmode
            s.pol, s.specmode = 0, True
            try:
                v, t = s.ev(s.parse(expr), st)
            finally:
                s.pol, s.specmode = sv_pol, sv_mode
            st.env[name] = (s.coerce(v, t, typ)[0], typ)

    def loop_common(s, n, st, ordn, sp, iv, dom):
        """dom is None for while loops"""
        invs = sp['inv']

        def inv_assume(t):
            for x in invs:
                s.assume(t, x)
            for x in sp.get('free_inv', []):      # facts that hold by construction of the engine (e.g. heap frame of the loop)
                s.assume(t, x)

        def inv_assert(t, tag, line, use_for=None):
            for k, x in enumerate(invs):
                extra = []
                if use_for is not None:
                    for u in use_for.get(k, []):        # lemma instances visible to this conjunct only
                        t2 = t.clone()
                        s.use_lemma(t2, u)
                        extra += t2.pc[len(t.pc):]
                s.oblige(t, f'{tag}#L{ordn}.{k}', s.spec_eval(x, t, 1), line, 'inv', extra=extra)

        for g in sp.get('ghost_decl', []):
            if g[0] not in st.env:
                st.env[g[0]] = (fresh(g[0], g[1]), g[1])
        s.run_ghosts(sp, st, 'ghost_init')
        names = s.assigned_names(n.body) | {g[0] for g in sp.get('ghost_mod', [])}
        if dom is not None:
            names |= s.assigned_names([ast.Assign(targets=[n.target], value=ast.Constant(0))])
        fields, lists = s.heap_effects(n.body, st)
        fields |= set(sp.get('heap_mod', []))
        # entry
        ent = st.clone()
        ent.env[iv] = (IntVal(0), INT)
        inv_assert(ent, 'inv-init', n.lineno)
        # arbitrary iteration
        b = st.clone()
        s.havoc(b, names, fields, lists, sp.get('ghost_mod', []))
        for v in names:
            if v not in b.env and s.declared(v) is None:
                pass
        i = fresh_int(iv)
        b.env[iv] = (i, INT)
        b.pc.append(i >= 0)
        inv_assume(b)
        a = b.clone()           # exit state shares the havocked variables
        if dom is not None:
            cnt = dom['dyn'](b) if dom.get('dyn') else dom['count']
            b.pc.append(i < cnt)
            dom['bind'](b, i)
        else:
            c, tc = s.ev(n.test, b)
            b.pc.append(s.truthy(c, tc, b))
        var0 = None
        cnt_head = cnt if (dom is not None and dom.get('dyn')) else None

        def variant_terms(state):
            """the variant as a list of integer terms (lexicographic order); a real-valued variant keeps its legacy form"""
            dec = sp['decreases']
            sv_pol, sv_mode = s.pol, s.specmode
            s.pol, s.specmode = 0, True
            try:
                return [s.ev(s.parse(d), state) for d in (dec if isinstance(dec, (list, tuple)) else [dec])]
            finally:
                s.pol, s.specmode = sv_pol, sv_mode
        if sp.get('decreases'):
            var0 = variant_terms(b)
            vt = var0[0][1]
        s.run_ghosts(sp, b, 'ghost_pre')
        for k, h in enumerate(sp.get('hint_pre', [])):
            extra = []
            for u in sp.get('use_hint_pre', {}).get(k, []):     # lemma instances visible to this hint only
                t2 = b.clone()
                s.use_lemma(t2, u)
                extra += t2.pc[len(b.pc):]
            s.oblige(b, f'hint-pre#L{ordn}.{k}', s.spec_eval(h, b, 1), n.lineno, 'hint', extra=extra)
            b.pc.append(s.spec_eval(h, b, -1))
        broke = []
        for t in s.block(n.body, b):
            jump = t.env.pop('__jump', (None, None))[0]
            if jump == 'break':             # leaves the loop from this very state (the invariant is not re-established)
                broke.append(t)
                continue
            s.run_ghosts(sp, t, 'ghost_post')
            for k, h in enumerate(sp.get('hint', [])):
                s.hint(t, h, f'hint#L{ordn}.{k}', n.lineno)
            use = sp.get('use', [])
            if isinstance(use, list):
                for u in use:
                    s.use_lemma(t, u)
            t.env[iv] = (i + 1, INT)
            inv_assert(t, 'inv-step', n.lineno, use if isinstance(use, dict) else None)
            if var0 is not None:
                var1 = variant_terms(t)
                if vt == INT:
                    # well-founded lexicographic order on tuples of naturals: every component is >= 0 at the loop head and the
                    # tuple decreases strictly over every iteration AFTER WHICH THE LOOP CONTINUES (the last iteration need not)
                    dec = BoolVal(False)
                    for (a1, _), (a0, _) in reversed(list(zip(var1, var0))):
                        dec = Or(a1 < a0, And(a1 == a0, dec))
                    goal = And(*[a0 >= 0 for a0, _ in var0], dec)
                    if dom is None:
                        t2 = t.clone()
                        c2, tc2 = s.ev(n.test, t2)
                        cont = s.truthy(c2, tc2, t2)
                        goal = And(*[a0 >= 0 for a0, _ in var0], Implies(cont, dec))
                else:
                    t2 = t
                    goal = And(var0[0][0] >= 0, var1[0][0] <= var0[0][0] - s.ev(s.parse(sp['decreases_by']), t)[0])
                tv = t2 if dom is None else t
                extra = []
                for u in sp.get('use_variant', []):     # lemma instances visible to the variant obligation only
                    t3 = tv.clone()
                    s.use_lemma(t3, u)
                    extra += t3.pc[len(tv.pc):]
                s.oblige(tv, f'variant#L{ordn}', goal, n.lineno, 'variant', extra=extra)
            if cnt_head is not None:
                # a for loop over a list the body might change terminates if the list does not grow
                s.oblige(t, f'variant-for#L{ordn}', dom['dyn'](t) <= cnt_head, n.lineno, 'variant')
        # exit
        if dom is not None:
            cnt = dom['dyn'](a) if dom.get('dyn') else dom['count']
            a.pc.append(i >= cnt)
            if not dom.get('dyn'):
                a.pc.append(i == If(cnt >= 0, cnt, 0))   # index loops leave exactly at the count (derived: i<=count is invariant by construction)
        else:
            c, tc = s.ev(n.test, a)
            a.pc.append(Not(s.truthy(c, tc, a)))
        for name, typ, expr in s.cur.get('ghost_after_loop', {}).get(ordn, []):     # ghost snapshot of a value at loop exit
            v_, t_ = s.ev(s.parse(expr), a)
            a.env[name] = (v_, typ)
        for k, h in enumerate(sp.get('hint_exit', [])):
            s.hint(a, h, f'hint-exit#L{ordn}.{k}', n.lineno)
        for u in sp.get('use_exit', []) + s.cur.get('after_loop_use', {}).get(ordn, []):
            s.use_lemma(a, u)
        # variables first bound inside the loop may be unbound after it
        for v in names:
            if v not in st.env and v in a.env and v != iv:
                a.unbound.add(v)
                bexpr = sp.get('bound_after', {}).get(v)
                if bexpr:
                    a.env['__bound_' + v] = (s.spec_eval(bexpr, a, 0), BOOL)
        if broke and (s.cur.get('ghost_after_loop', {}).get(ordn) or sp.get('hint_exit') or sp.get('use_exit')):
            raise Unsupported('break in a loop whose contract has exit annotations')
        return [a] + broke

    def st_For(s, n, st):
        if n.orelse:
            raise Unsupported('for/else')
        if s.only_logging(n.body):
            # a loop whose body only logs: no effect on the state; its iterable must still be iterable (a list here)
            v, t = s.ev(n.iter, st)
            if t.k not in ('list', 'lref'):
                raise Unsupported('logging loop over a non-list')
            return [st]
        if isinstance(n.iter, ast.List):       # literal list: unrolled exactly
            cur = [st]
            for el in n.iter.elts:
                nxt = []
                for t in cur:
                    v, ty = s.ev(el, t)
                    s.assign(n.target, v, ty, t, n.lineno)
                    nxt += s.block(n.body, t)
                cur = nxt
            return cur
        ordn, sp = s.loop_spec(n)
        iv = '_i' if ordn == 0 else f'_i{ordn}'
        dom = s.iter_domain(n.iter, n.target, st)
        if dom.get('dyn') and not s.heap_effects(n.body, st)[1]:
            dom['dyn'] = None      # the body cannot change any heap list: the length read at entry stays the length
        if not dom.get('dyn'):
            sp = dict(sp)
            sp['free_inv'] = list(sp.get('free_inv', []))
            st.env[f'__count{ordn}'] = (dom['count'], INT)
            sp['free_inv'].append(f'{iv} <= ite(__count{ordn} >= 0, __count{ordn}, 0)')
        return s.loop_common(n, st, ordn, sp, iv, dom)

    def st_While(s, n, st):
        if n.orelse:
            raise Unsupported('while/else')
        ordn, sp = s.loop_spec(n)
        iv = '_i' if ordn == 0 else f'_i{ordn}'
        return s.loop_common(n, st, ordn, sp, iv, None)

    def inline_expr(s, fn, recv, e, st):
        """a helper called inside an expression: its paths are merged into one value with ite (no raising paths allowed)"""
        base = st.clone()
        n_ob = len(s.obligs)
        outs = s.inline_helper(fn, recv, e, base, e.lineno)
        if not outs:
            raise Unsupported(f'inlined helper {fn.name} has no normal return')
        n0 = len(st.pc)
        val, ty = None, None
        conds = []
        for t_, v_, ty_ in reversed(outs):
            if any(t_.heap[f] is not st.heap[f] for f in st.heap) or any(t_.lheap[k] is not st.lheap[k] for k in st.lheap):
                raise Unsupported(f'inlined helper {fn.name} has side effects inside an expression')
            cond = And(*t_.pc[n0:]) if len(t_.pc) > n0 else BoolVal(True)
            conds.append(cond)
            if val is None:
                val, ty = v_, ty_
            else:
                if ty_ != ty:
                    v_, val, ty = s.num2(v_, ty_, val, ty)
                val = If(cond, v_, val)
        st.pc.append(Or(*conds))        # execution continues only on a path on which the helper returned (its raising paths ended there)
        return val, ty

    # ---------------------------------------------------------------- inlining of uncontracted, loop-free helpers
    def find_helper(s, c, st):
        """a call to a function (or a method of the receiver's class or of its bases) of the same module that has no contract and
        whose body has no loop: returns (FunctionDef, receiver or None) -- such helpers are executed in place"""
        mod = s.modules[s.cur['name'].split('.')[0]]
        f = c.func
        fn, recv = None, None
        if isinstance(f, ast.Name):
            fn = mod.find(f.id)
            if not isinstance(fn, ast.FunctionDef):
                fn = None
        elif isinstance(f, ast.Attribute):
            try:
                o, ot = s.ev(f.value, st)
            except Unsupported:
                return None, None
            if ot.k != 'ref':
                # Cls.helper(...) written on the class (static method)
                if isinstance(f.value, ast.Name):
                    fn = mod.find(f'{f.value.id}.{f.attr}')
                if fn is None:
                    return None, None
            else:
                classes = [ot.a[0]] + [k for k in s.class_tags] + ['Node']
                for cls in classes:
                    cand = mod.find(f'{cls}.{f.attr}')
                    if isinstance(cand, ast.FunctionDef):
                        fn = cand
                        break
                is_static = fn is not None and any(isinstance(d, ast.Name) and d.id == 'staticmethod' for d in fn.decorator_list)
                recv = None if is_static else (o, ot)
        if fn is None:
            return None, None
        if any(isinstance(x, (ast.For, ast.While, ast.Try, ast.With, ast.Lambda, ast.Yield)) for x in ast.walk(fn)):
            return None, None
        if any(isinstance(x, ast.Call) and isinstance(x.func, ast.Name) and x.func.id == fn.name for x in ast.walk(fn)):
            return None, None
        return fn, recv

    def inline_helper(s, fn, recv, c, st, line):
        """-> list of (state, value, type) for the normal returns; raises inside the helper follow the caller's rules"""
        if len(s.cur.setdefault('_inline', [])) > 3:
            raise Unsupported('helper inlining too deep')
        params = [a.arg for a in fn.args.args]
        saved_env = dict(st.env)
        env2 = {k: v for k, v in st.env.items() if k.startswith('__')}
        args = list(c.args)
        if recv is not None:
            env2[params[0]] = recv
            params = params[1:]
        defaults = dict(zip([a.arg for a in fn.args.args][::-1], fn.args.defaults[::-1]))
        kw = {k.arg: k.value for k in c.keywords if k.arg}
        for pn in params:
            if args:
                env2[pn] = s.ev(args.pop(0), st)
            elif pn in kw:
                env2[pn] = s.ev(kw[pn], st)
            elif pn in defaults:
                env2[pn] = s.ev(defaults[pn], st)
            else:
                raise Unsupported(f'missing argument {pn} for inlined helper {fn.name}')
        frame = dict(returns=[])
        s.cur['_inline'].append(frame)
        st.env = env2
        saved_locals = s.cur['locals']
        s.cur['locals'] = dict(saved_locals)
        try:
            for t in s.block(fn.body, st):
                frame['returns'].append((t, BoolVal(False), NONE))
        finally:
            s.cur['_inline'].pop()
            s.cur['locals'] = saved_locals
        outs = []
        for t, v, ty in frame['returns']:
            keep = {k: x for k, x in t.env.items() if k.startswith('__') and k not in saved_env}
            t.env = dict(saved_env)
            t.env.update(keep)
            outs.append((t, v, ty))
        return outs

    # ---------------------------------------------------------------- calls at statement level (may raise, may bind)
    def call_stmt(s, c, target, st, line):
        f = c.func
        q = None
        recv = None
        if isinstance(f, ast.Name):
            q = s.resolve_function(f.id)
            if q is None and f.id in s.cur.get('constructors', {}):
                q = s.cur['constructors'][f.id]
        elif isinstance(f, ast.Attribute) and isinstance(f.value, ast.Call) and isinstance(f.value.func, ast.Name) and f.value.func.id == 'super':
            # super().m(...): the same method of the base class, on the same object
            mod_, cls_ = s.cur['name'].split('.')[0], s.cur['name'].split('.')[1]
            cdef = s.modules[mod_].find(cls_)
            base = cdef.bases[0].id if cdef is not None and cdef.bases else None
            q = f'{mod_}.{base}.{f.attr}'
            if q not in s.contracts:
                raise Unsupported(f'no contract for {q}')
            self_name = next(iter(s.cur['params']))
            recv = st.env[self_name]
        elif isinstance(f, ast.Attribute) and not (isinstance(f.value, ast.Name) and f.value.id in ('math', 'random', 'time', 'copy', 'logging')):
            try_builtin = getattr(s, 'meth_' + f.attr, None)
            o, ot = s.ev(f.value, st)
            if ot.k == 'ref':
                q = s.resolve_method(ot, f.attr)
                recv = (o, ot)
                if q is None:
                    fn_, recv_ = s.find_helper(c, st)
                    if fn_ is None:
                        raise Unsupported(f'no contract for method {f.attr} on {ot}')
                    res = []
                    for t_, v_, ty_ in s.inline_helper(fn_, recv_, c, st, line):
                        if target is not None:
                            s.assign(target, v_, ty_, t_, line)
                        res.append(t_)
                    return res
            elif try_builtin is not None:
                s.builtin_method(c, f.attr)
                v, t = try_builtin(c, o, ot, st)
                if target is not None:
                    s.assign(target, v, t, st, line)
                return [st]
        if q is None:
            is_builtin_like = isinstance(f, ast.Name) and (getattr(s, 'bi_' + f.id, None) is not None or f.id in SPEC or f.id in s.cur.get('externals', {}))
            fn_, recv_ = (None, None) if is_builtin_like or not isinstance(f, (ast.Name, ast.Attribute)) else s.find_helper(c, st)
            if fn_ is not None and not (isinstance(f, ast.Attribute) and isinstance(f.value, ast.Name) and f.value.id in ('math', 'random', 'time', 'copy', 'logging')):
                res = []
                for t_, v_, ty_ in s.inline_helper(fn_, recv_, c, st, line):      # each path of the helper continues as its own path
                    if target is not None:
                        s.assign(target, v_, ty_, t_, line)
                    res.append(t_)
                return res
            v, t = s.ev(c, st)
            if target is not None:
                s.assign(target, v, t, st, line)
            return [st]
        for h_ in s.cur.get('assume_at_call', {}).get(q.split('.', 1)[1], []):
            s.assume(st, h_)
        outs = s.apply_contract(q, recv, c, st, line)
        res = []
        for kind, t, v, ty in outs:
            if kind == 'ok' and target is not None:
                s.assign(target, v, ty, t, line)
            short = q.split('.', 1)[1]
            occ = s.cur.setdefault('_call_occ', {})
            if kind == 'ok' or len(outs) == 1:
                occ[short] = occ.get(short, 0) + (1 if kind == 'ok' else 0)
            acs = s.cur.get('after_call', {})
            ac = acs.get(f'{short}#{occ.get(short, 1) - 1}') or acs.get(short)
            if ac and (kind == 'ok' or ac.get('also_on_raise')):
                # intermediate assertions after this call: each proved (with the named lemma instances), then assumed
                for k, h in enumerate(ac.get('hints', [])):
                    t2 = t.clone()
                    for u in ac.get('use', {}).get(k, []):
                        s.use_lemma(t2, u)
                    s.oblige(t2, f'hint-after:{q.split(".")[-1]}#{k}@{line}' + ('' if kind == 'ok' else '!raise'), s.spec_eval(h, t2, 1), line, 'hint')
                    t.pc.append(s.spec_eval(h, t, -1))
            if kind == 'ok':
                res.append(t)
            else:
                res += s.do_raise(t, kind[1], v, line)
        return res

    def call_contract(s, q, o, ot, e, st):
        """call inside an expression: the callee must not raise and must not fork"""
        outs = s.apply_contract(q, (o, ot) if o is not None else None, e, st, e.lineno)
        if len(outs) != 1 or outs[0][0] != 'ok':
            raise Unsupported(f'raising call to {q} inside an expression')
        _, t, v, ty = outs[0]
        if t is not st:
            st.env, st.heap, st.lheap, st.pc, st.alloc_o, st.alloc_l = t.env, t.heap, t.lheap, t.pc, t.alloc_o, t.alloc_l
        return v, ty

    def apply_contract(s, q, recv, c, st, line):
        k = s.contracts[q]
        st.calls = st.calls + (q.split('.', 1)[1],)
        params = list(k['params'].items())
        ghosts = k.get('ghost_params', {})
        args = []
        pi = 0
        cal = St()
        cal.pc = st.pc
        cal.heap, cal.lheap, cal.alloc_o, cal.alloc_l = st.heap, st.lheap, st.alloc_o, st.alloc_l
        is_new = k.get('constructor') and recv is None
        if recv is not None or is_new:
            if is_new:
                newo = st.alloc_o
                st.alloc_o = st.alloc_o + 1
                cal.alloc_o = st.alloc_o
                cal.env[params[0][0]] = (newo, params[0][1])
                cname = q.split('.')[1]
                if '__class__' in st.heap and cname in s.class_tags:      # object creation fixes the class of the new object
                    st.heap = dict(st.heap)
                    st.heap['__class__'] = Store(st.heap['__class__'], newo, IntVal(s.class_tags[cname]))
                    cal.heap = st.heap
            else:
                cal.env[params[0][0]] = (recv[0], params[0][1])
            pi = 1
        pos = list(c.args)
        kw = {x.arg: x.value for x in c.keywords if x.arg is not None}
        splat = [x.value for x in c.keywords if x.arg is None]
        splat_vals = {}
        for sv_ in splat:               # f(**d) for a dict-like heap object with a fixed key set: one keyword per key
            dv, dt = s.ev(sv_, st)
            keys = s.cur.get('dict_fields', {}).get(dt.a[0]) if dt.k == 'ref' else None
            if keys is None:
                raise Unsupported('** of an unknown mapping')
            for key, fname in keys.items():
                splat_vals[key] = (st.heap[fname][dv], s.field_type(fname, dt))
        for (pn, pt) in params[pi:]:
            if pn in ghosts:
                continue
            if pos:
                a = pos.pop(0)
            elif pn in kw:
                a = kw.pop(pn)
            elif pn in splat_vals:
                v, t = splat_vals.pop(pn)
                cal.env[pn] = s.coerce(v, t, pt, st)
                continue
            elif pn in k.get('defaults', {}):
                a = s.parse(k['defaults'][pn])
            else:
                raise Unsupported(f'missing argument {pn} in call to {q}')
            v, t = s.ev(a, st)
            if pt.k == 'list' and t.k == 'lref':
                v, t = s.deref(v, t, st)
            cal.env[pn] = s.coerce(v, t, pt, st)
        for gn, gexpr in ghosts.items():
            # ghost arguments are supplied by the caller's contract (`ghost_args`) or default expressions
            src = s.cur.get('ghost_args', {}).get(q, {}).get(gn, gexpr)
            sv_pol, sv_mode = s.pol, s.specmode
            s.pol, s.specmode = 0, True
            try:
                v, t = s.ev(s.parse(src), st)
            finally:
                s.pol, s.specmode = sv_pol, sv_mode
            cal.env[gn] = (v, t)
        # preconditions
        sv_cur_consts = s.cur['_consts']
        callee_view = dict(s.cur)
        callee_view.update(heapnames=k.get('heapnames', s.cur.get('heapnames', {})), slot0=k.get('slot0', 'lab'), _types=k.get('_types', s.cur.get('_types', {})))
        saved = s.cur
        s.cur = callee_view
        try:
            for al, src in saved.get('alias_for_asserts', {}).items():      # caller locals visible to call_asserts under an alias
                src = saved.get('_alias', {}).get(src, src)
                if src in st.env:
                    cal.env[al] = st.env[src]
            for j, r in enumerate(saved.get('call_asserts', {}).get(q.split('.', 1)[1], [])):
                # assertions of the CALLER about the arguments it passes (and the state in which it calls)
                g = s.spec_eval(r, cal, 1)
                s.cur['name'] = saved['name']
                s.oblige(st, f'call-assert@{q.split(".", 1)[1]}#{j}@{line}', g, line, 'pre')
            for j, r in enumerate(k.get('requires', [])):
                g = s.spec_eval(r, cal, 1)
                saved_name = saved['name']
                s.cur['name'] = saved_name
                s.oblige(st, f'pre@{q.split(".", 1)[1]}#{j}@{line}', g, line, 'pre', extra=saved.get('use_pre', {}).get(q, []))
                st.pc.append(g)
            # post-state
            post = cal.clone()
            post.old = cal
            mod = k.get('modifies', {})
            for f, objs in mod.items():
                if f == '__lists__':
                    continue
                if f not in st.heap:
                    raise Unsupported(f'callee {q} modifies field {f} that is not in the heap of {saved["name"]}')
                nh = fresh('H_' + f, ARR(INT, s.field_type(f, None)))
                post.pc = post.pc + s.wf_facts(nh, ARR(INT, s.field_type(f, None)))
                if objs != 'all':
                    o = Int(f'o!b{next(Ty._fresh)}')
                    excl = [s.spec_frame_set(ex, o, post) for ex in objs]
                    post.pc = post.pc + [ForAll([o], Implies(Not(Or(*excl)) if excl else BoolVal(True), nh[o] == cal.heap[f][o]))]
                post.heap = dict(post.heap)
                post.heap[f] = nh
            lm = mod.get('__lists__', None)
            if lm is not None or k.get('allocates'):
                post.lheap = dict(post.lheap)
                na = fresh_int('alloc_l')
                post.pc = post.pc + [na >= cal.alloc_l]
                post.alloc_l = na
                for e0 in list(post.lheap):
                    nl = fresh('LH', ARR(INT, LIST(e0)))
                    post.pc = post.pc + s.wf_facts(nl, ARR(INT, LIST(e0)))
                    r = Int(f'r!b{next(Ty._fresh)}')
                    if lm == 'all':
                        pass
                    else:
                        excl = [s.spec_frame_set(ex, r, post) for ex in (lm or [])]
                        post.pc = post.pc + [ForAll([r], Implies(And(0 <= r, r < cal.alloc_l, Not(Or(*excl)) if excl else BoolVal(True)),
                                                                nl[r] == cal.lheap[e0][r]))]
                    post.lheap[e0] = nl
            outs = []
            rs = k.get('raises')
            if rs:
                ex = post.clone()
                ex.old = cal
                for cond in rs.get('when', []):
                    ex.pc.append(s.spec_eval(f'old({cond})', ex, -1))
                msg = fresh('msg', STR)
                ex.env['exc_msg'] = (msg, STR)
                for p in rs.get('ensures', []):
                    ex.pc.append(s.spec_eval(p, ex, -1))
                t2 = st.clone()
                t2.pc, t2.heap, t2.lheap, t2.alloc_l, t2.alloc_o = ex.pc, ex.heap, ex.lheap, ex.alloc_l, ex.alloc_o
                outs.append((('raise', rs.get('exc', ['ValueError'])[0]), t2, msg, STR))
            rt = k.get('result', NONE)
            rv = fresh('ret', rt) if rt != NONE else BoolVal(False)
            if rt != NONE:
                post.pc = post.pc + s.wf_facts(rv, rt)
            if is_new:
                rv, rt = cal.env[params[0][0]]
            post.env['result'] = (rv, rt)
            # a callee whose postcondition speaks about the file it opened: the ghost file of the caller is the callee's afterwards
            ghost_file = [g for g in ('__path', '__mode', '__content') if any(g in str(p) for p in k.get('ensures', []))]
            for g in ghost_file:
                post.env[g] = (fresh(g.strip('_'), STR), STR)
            for p in k.get('ensures', []):
                post.pc.append(s.spec_eval(p, post, -1))
            for g in ghost_file:
                st.env[g] = post.env[g]
            st.pc, st.heap, st.lheap, st.alloc_l, st.alloc_o = post.pc, post.heap, post.lheap, post.alloc_l, post.alloc_o
            outs.insert(0, ('ok', st, rv, rt))
        finally:
            s.cur = saved
        return outs

    # ---------------------------------------------------------------- driver
    def number_nodes(s, fn):
        loops, comps = [], []

        def pre(nd):
            if isinstance(nd, (ast.For, ast.While)) and not (isinstance(nd, ast.For) and isinstance(nd.iter, ast.List)) \
                    and not (isinstance(nd, ast.For) and s.only_logging(nd.body)):
                loops.append(nd)
            if isinstance(nd, ast.ListComp):
                comps.append(nd)
            for ch in ast.iter_child_nodes(nd):
                pre(ch)
        pre(fn)
        return {id(x): k for k, x in enumerate(loops)}, {id(x): k for k, x in enumerate(comps)}

    def init_state(s, c):
        st = St()
        for f in c.get('heap', []):
            ft = ARR(INT, s.field_type(f, None))
            st.heap[f] = Const(f'H_{f}', sort(ft))
            st.pc += s.wf_facts(st.heap[f], ft)
        for e0 in c.get('lheap', []):
            st.lheap[e0] = Const(f'LH_{e0.k}', sort(ARR(INT, LIST(e0))))
            st.pc += s.wf_facts(st.lheap[e0], ARR(INT, LIST(e0)))
        st.alloc_o = Int('alloc_o')
        st.alloc_l = Int('alloc_l')
        st.pc += [st.alloc_o >= 0, st.alloc_l >= 0]
        for p, t in c['params'].items():
            st.env[p] = (Const(p, sort(t)), t)
            st.pc += s.wf_facts(st.env[p][0], t)
        for p, t in c.get('suffix_locals', {}).items():       # locals already bound when a suffix contract starts
            st.env[p] = (Const(p, sort(t)), t)
            st.pc += s.wf_facts(st.env[p][0], t)
        return st

    def run(s, qual, impl_of=None):
        c = dict(s.contracts[qual])
        modname, rest = qual.split('.', 1)
        rest = rest.split('@')[0]          # 'module.Class.method@variant': a second contract for the same function (e.g. a suffix of it)
        mod = s.modules[modname]
        fn = mod.find(rest)
        if fn is None:
            raise ContractError(f'function {qual} not found in {mod.path}')
        c['name'] = qual
        c['_names'] = {}
        c['_consts'] = mod.consts
        c.setdefault('locals', {})
        c.setdefault('ensures', [])
        if getattr(fn, '_rebound', None):
            raise Unsupported(f'{qual}: the name is bound again at line {fn._rebound}; the contract is about the first definition only')
        for d_ in fn.decorator_list:       # a decorator may replace the body altogether (caching, wrapping): only the two inert ones are read through
            if not (isinstance(d_, ast.Name) and d_.id in ('staticmethod', 'classmethod')):
                raise Unsupported(f'{qual} is decorated with {ast.unparse(d_)}: the contract is about the undecorated body')
        c['_loopnum'], c['_compnum'] = s.number_nodes(fn)
        # a contract may name more loops than the function has (a loop was rewritten as a comprehension, which the engine
        # characterises by itself): the surplus loop annotations are simply never used; every obligation still comes from the real code
        c['_surplus_loops'] = [k for k in c.get('loops', {}) if k not in c['_loopnum'].values()]
        s.cur = c
        # locals renamed since the contract was written: the contract refers to locals by name; the lock file records the
        # order of first assignment of the locals of each function, and a function with the same number of locals in which
        # some names differ is read with the old names as aliases of the new ones (a wrong guess can only make an obligation
        # fail to prove -- the obligations are still about the real code)
        cur_locals = local_order(fn)
        lock_locals = getattr(s, 'locals_lock', {}).get(qual)
        c['_locals_order'] = cur_locals
        if lock_locals and lock_locals and isinstance(lock_locals[0], list) and [n_ for n_, _ in cur_locals] != [n_ for n_, _ in lock_locals]:
            al = infer_aliases(lock_locals, cur_locals)
            c['_alias'] = al
            c['_alias_rev'] = {v: k for k, v in al.items()}
        st = s.init_state(c)
        # parameters of the real function must match the contract
        real = [a.arg for a in fn.args.args]
        want = [p for p in c['params'] if p not in c.get('ghost_params', {})]
        if real != want:
            raise ContractError(f'{qual}: parameters {real} differ from the contract {want}')
        # default values the contract relies on at call sites must be the defaults of the real function
        code_defaults = dict(zip([a.arg for a in fn.args.args][len(fn.args.args) - len(fn.args.defaults):], fn.args.defaults))
        for pn, dv in c.get('defaults', {}).items():
            if pn not in code_defaults or ast.dump(s.parse(dv)) != ast.dump(code_defaults[pn]):
                raise ContractError(f'{qual}: the contract assumes the default {pn}={dv}, the function has {ast.unparse(code_defaults[pn]) if pn in code_defaults else "none"}')
        for r in c.get('requires', []):
            s.assume(st, r)
        for a in c.get('use_axioms', []):
            st.pc.append(AXIOMS[a])
        for v in sorted(s.assigned_names(fn.body)):
            if v not in c['params']:
                st.env['__b_' + v] = (BoolVal(v in c.get('suffix_locals', {})), BOOL)
        st.old = st.clone()
        n0 = len(s.obligs)
        # local variables assigned somewhere but not yet bound
        body = fn.body
        sa = c.get('start_after_assign')
        if sa:          # the contract covers the function FROM the statement after the top-level assignment to `sa` (its value is a symbolic local)
            idx = [i for i, x in enumerate(body) if isinstance(x, ast.Assign) and len(x.targets) == 1 and isinstance(x.targets[0], ast.Name) and x.targets[0].id == sa]
            if not idx:
                raise ContractError(f'{qual}: the assignment to {sa!r} that starts the contracted suffix was not found')
            body = body[idx[0] + 1:]
        for t in s.block(body, st):
            s.exit_normal(t, BoolVal(False), NONE, fn.body[-1].lineno)
        if c.get('cut_before_assign') and not c.get('_cut_reached'):
            raise ContractError(f'{qual}: the assignment to {c["cut_before_assign"]!r} that ends the contracted prefix was not found')
        info = dict(name=qual, src_hash=sha(mod.segment(fn)), contract_hash=sha(repr(sorted((k, repr(v)) for k, v in s.contracts[qual].items() if not k.startswith('_') and not callable(v)))),
                    lines=(fn.lineno, fn.end_lineno), n=len(s.obligs) - n0, locals_order=c.get('_locals_order', []), aliases=c.get('_alias', {}),
                    lemmas_used=sorted(c.get('_lemmas_used', ())))
        return s.obligs[n0:], info


def _refinement(s, vq):
    """behavioural subtyping: every implementation of a virtual method accepts the virtual precondition (under its
    class tag) and establishes the virtual postcondition; call sites only ever use the virtual contract"""
    V = s.contracts[vq]
    mod, cls, meth = vq.split('.')
    n0 = len(s.obligs)
    for impl in V['implementations']:
        iq = f'{mod}.{impl}.{meth}'
        I = s.contracts[iq]
        if not set(I.get('modifies', {})) <= set(V.get('modifies', {})):
            raise ContractError(f'{iq} modifies more than {vq}')
        c = dict(V)
        c.update(name=f'{vq}<:{impl}', _names={}, _consts=s.modules[mod].consts, slot0=I.get('slot0', 'lab'), _loopnum={}, _compnum={})
        c.setdefault('locals', {})
        s.cur = c
        st = s.init_state(c)
        for r in V.get('requires', []):
            s.assume(st, r)
        self_name = next(iter(V['params']))
        st.pc.append(st.heap['__class__'][st.env[self_name][0]] == s.class_tags[impl])
        st.old = st.clone()
        for k, r in enumerate(I.get('requires', [])):
            s.oblige(st, f'refine-pre#{k}', s.spec_eval(r, st, 1), 0, 'refine')
        rt = V.get('result', NONE)
        if rt != NONE:
            st.env['result'] = (fresh('ret', rt), rt)
            st.pc += s.wf_facts(st.env['result'][0], rt)
        for r in I.get('ensures', []):
            s.assume(st, r)
        for k, r in enumerate(V.get('ensures', [])):
            s.oblige(st, f'refine-post#{k}', s.spec_eval(r, st, 1), 0, 'refine')
    info = dict(name=vq, src_hash='-', contract_hash=sha(repr(sorted((k, repr(v)) for k, v in V.items() if not callable(v)))), lines=(0, 0), n=len(s.obligs) - n0)
    for o in s.obligs[n0:]:
        o.fn = vq
    return s.obligs[n0:], info


VCGen.refinement = _refinement


def _patterns_for(k, f):
    """triggers for a quantifier whose body contains further quantifiers (z3's own inference does not look inside them):
    every array read X[k] with X free of k, and every uninterpreted application with k as a direct argument"""
    from z3 import is_select, Z3_OP_UNINTERPRETED
    found = {}

    def contains(e):
        if e.eq(k):
            return True
        if is_quantifier(e):
            return contains(e.body())
        return any(contains(c) for c in e.children())

    def has_var(e):
        if is_var(e):
            return True
        if is_quantifier(e):
            return True
        return any(has_var(c) for c in e.children())

    from z3 import Z3_OP_SELECT, Z3_OP_DT_ACCESSOR, Z3_OP_DT_CONSTRUCTOR, Z3_OP_ANUM

    def ok_in_pattern(e):
        if is_var(e) or is_quantifier(e):
            return False
        if not is_app(e):
            return False
        kd = e.decl().kind()
        if e.num_args() == 0:
            return True
        if kd not in (Z3_OP_UNINTERPRETED, Z3_OP_SELECT, Z3_OP_DT_ACCESSOR, Z3_OP_DT_CONSTRUCTOR):
            return False
        return all(ok_in_pattern(c) for c in e.children())

    def walk(e):
        if is_quantifier(e):
            walk(e.body())
            return
        if not is_app(e):
            return
        if is_select(e) and e.arg(1).eq(k) and not contains(e.arg(0)) and ok_in_pattern(e):
            found[e.get_id()] = e
        elif e.decl().kind() == Z3_OP_UNINTERPRETED and e.num_args() > 0 and any(c.eq(k) for c in e.children()) and ok_in_pattern(e):
            found[e.get_id()] = e
        for c in e.children():
            walk(c)
    walk(f)
    return list(found.values())[:6]


def _abstract(node):
    """dump of an expression with local names blanked (so that a consistent renaming does not change it)"""
    n2 = ast.parse(ast.unparse(node), mode='eval').body if not isinstance(node, ast.expr_context) else node

    class Blank(ast.NodeTransformer):
        def visit_Name(self, x):
            return ast.copy_location(ast.Name(id='_', ctx=ast.Load()), x)
    return ast.dump(Blank().visit(n2))


def local_order(fn):
    """[[name, signature]] for the names assigned in the function, in source order of their first assignment (parameters
    excluded); the signature lists how the name is assigned (right-hand sides with names blanked)"""
    params = {a.arg for a in fn.args.args}
    sig = {}
    order = []

    def note(name, pos, what):
        if name in params:
            return
        if name not in sig:
            sig[name] = []
            order.append((pos, name))
        sig[name].append(what)

    def targets(t, pos, what):
        if isinstance(t, ast.Name):
            note(t.id, pos, what)
        elif isinstance(t, (ast.Tuple, ast.List)):
            for i, el in enumerate(t.elts):
                targets(el, pos, f'{what}[{i}]')
    for x in ast.walk(fn):
        pos = (getattr(x, 'lineno', 0), getattr(x, 'col_offset', 0))
        if isinstance(x, ast.Assign):
            for t in x.targets:
                targets(t, pos, 'A:' + _abstract(x.value))
        elif isinstance(x, ast.AugAssign):
            targets(x.target, pos, 'G:' + type(x.op).__name__ + _abstract(x.value))
        elif isinstance(x, ast.For):
            targets(x.target, pos, 'F:' + _abstract(x.iter))
        elif isinstance(x, ast.comprehension):
            targets(x.target, pos, 'C:' + _abstract(x.iter))
        elif isinstance(x, ast.With):
            for it in x.items:
                if it.optional_vars is not None:
                    targets(it.optional_vars, pos, 'W')
        elif isinstance(x, ast.ExceptHandler) and x.name:
            note(x.name, pos, 'E')
    return [[n_, sorted(sig[n_])] for _, n_ in sorted(order)]


def infer_aliases(lock_locals, cur_locals):
    """old name -> new name for locals that were renamed: same assignment signature, unambiguous (ties broken by order)"""
    old_names = [n for n, _ in lock_locals]
    new_names = [n for n, _ in cur_locals]
    gone = [(n, sg) for n, sg in lock_locals if n not in new_names]
    came = [(n, sg) for n, sg in cur_locals if n not in old_names]
    al = {}
    for n, sg in gone:
        cands = [m for m, sg2 in came if sg2 == sg and m not in al.values()]
        if cands:
            al[n] = cands[0]
    if len(gone) == len(came):          # what is left over is matched by position
        rest_old = [n for n, _ in gone if n not in al]
        rest_new = [m for m, _ in came if m not in al.values()]
        for n, m in zip(rest_old, rest_new):
            al[n] = m
    return al


def _is_nonlinear_product(v):
    from z3 import is_mul
    v = simplify(v)
    return is_mul(v) and sum(1 for c in v.children() if not is_int_value(c)) >= 2


def _mentions_prefix(e, prefixes):
    seen = set()
    stack = [e]
    while stack:
        x = stack.pop()
        k = x.get_id()
        if k in seen:
            continue
        seen.add(k)
        if is_quantifier(x):
            stack.append(x.body())
        elif is_app(x):
            if x.num_args() == 0 and x.decl().kind() == Z3_OP_UNINTERPRETED and x.decl().name().startswith(prefixes):
                return True
            stack.extend(x.children())
    return False


def _has_quant(e):
    if is_quantifier(e):
        return True
    return any(_has_quant(c) for c in e.children()) if is_app(e) else False


def _as_load(t):
    t2 = ast.parse(ast.unparse(t), mode='eval').body
    return t2

"""Loads /repo's modules (current working tree) and the sidecar contracts."""
import os
import importlib
from .engine import Module, VCGen

REPO = os.environ.get('PYVC_REPO', '/repo')
MODULES = ['tad', 'reverse_dfs', 'roberta_generator', 'conditionalrewards', 'stochastic_game_from_roborta_board']


def load_modules(repo=None):
    repo = repo or REPO
    out = {}
    for m in MODULES:
        p = os.path.join(repo, m + '.py')
        if os.path.exists(p):
            out[m] = Module(m, p)
    return out


def load_contracts():
    contracts, fields, tags = {}, {}, {}
    for name in ('tad', 'reverse_dfs', 'roberta_generator', 'conditionalrewards', 'stochastic_game_from_roborta_board'):
        try:
            mod = importlib.import_module('contracts.' + name)
        except ModuleNotFoundError as e:
            if e.name == 'contracts.' + name:
                continue
            raise
        contracts.update(mod.C)
        for k, v in getattr(mod, 'FIELDS', {}).items():
            fields[k] = v
        tags.update(getattr(mod, 'CLASS_TAGS', {}))
    return contracts, fields, tags


def make_gen(repo=None):
    import json
    contracts, fields, tags = load_contracts()
    g = VCGen(load_modules(repo), contracts, fields, tags)
    lock = os.path.join(os.path.dirname(os.path.dirname(os.path.abspath(__file__))), 'obligations.lock.json')
    g.locals_lock = json.load(open(lock)).get('__locals__', {}) if os.path.exists(lock) else {}
    return g

#!/usr/bin/env python3
"""Rewrites the generated tables of DESIGN.md (between <!-- BEGIN x --> / <!-- END x --> markers) from seeded/RESULTS.json,
benign/RESULTS.json and evidence/*.json. Hand-written text is never touched."""
import glob, json, os, re
V = os.path.dirname(os.path.dirname(os.path.abspath(__file__)))


def esc(s):
    return str(s).replace('|', '\\|').replace('\n', ' ')


def seeded_table():
    R = json.load(open(os.path.join(V, 'seeded', 'RESULTS.json')))
    rows = ['| seeded change | property | what it does | exit | clause of the executable contract that replays it | deductive side |', '|---|---|---|---|---|---|']
    for sid in sorted(R):
        mp = os.path.join(V, 'seeded', sid, 'meta.json')
        if not os.path.exists(mp):
            continue
        m = json.load(open(mp))
        r = R[sid]
        clauses = sorted({re.sub(r'-[0-9a-f]{10}\.json$', '', os.path.basename(v.split('replay=')[1].split()[0])).split('-', 2)[-1] for v in r['violations'] if 'replay=' in v and 'no-failing-input-found' not in v})
        noinput = any('no-failing-input-found' in v for v in r['violations'])
        ded = []
        for u in r['undecided']:
            if u.startswith('REFUTED'):
                ded.append('refuted: ' + u.split('obligation=')[1].split()[0].replace('tad.', '').replace('roberta_generator.', '').replace('reverse_dfs.', '').replace('conditionalrewards.', ''))
            elif 'contract-inapplicable' in u:
                ded.append('contract inapplicable: ' + u.split('function=')[1].split()[0].split('.', 1)[1])
            elif 'static-obligation=' in u:
                ded.append('static: ' + u.split('static-obligation=')[1].split()[0])
            elif 'obligation=' in u:
                ded.append('undecided: ' + u.split('obligation=')[1].split()[0].replace('tad.', '').replace('roberta_generator.', '').replace('reverse_dfs.', '').replace('conditionalrewards.', ''))
        what = m.get('summary') or m.get('description') or ''
        rows.append(f"| `{sid}` | {r['property']} | {esc(what[:170])} | {r['exit']} | {esc(', '.join(clauses)) or ('(none: no-failing-input-found)' if noinput else '—')} | {esc('; '.join(ded[:2])) or '—'} |")
    n = len(rows) - 2
    det = sum(1 for sid in R if os.path.exists(os.path.join(V, 'seeded', sid, 'meta.json')) and R[sid]['exit'] == 1)
    noin = sum(1 for sid in R if os.path.exists(os.path.join(V, 'seeded', sid, 'meta.json')) and R[sid]['exit'] == 1 and R[sid]['violations']
               and all('no-failing-input-found' in v for v in R[sid]['violations']))
    return (f"{det} of {n} catalogued changes end in exit 1: {det - noin} with a replayed input, {noin} with a refuted obligation that was proved on the unchanged tree "
            f"and no input found (`no-failing-input-found`).\n\n" + '\n'.join(rows))


def benign_table():
    R = json.load(open(os.path.join(V, 'benign', 'RESULTS.json')))
    rows = ['| change | what it does | result per property | first reason when undecided |', '|---|---|---|---|']
    pairs = alarms = ok = und = 0
    for bid in sorted(R):
        m = json.load(open(os.path.join(V, 'benign', bid, 'meta.json')))
        res, why = [], ''
        for p, r in R[bid].items():
            pairs += 1
            if r['exit'] == 1:
                alarms += 1
            elif r['exit'] == 0:
                ok += 1
            else:
                und += 1
                if not why and r['undecided']:
                    why = r['undecided'][0].split('reason=')[-1] if 'reason=' in r['undecided'][0] else r['undecided'][0].split('property=')[-1]
            res.append(f"{p}: {r['exit'] if r['exit'] in (0, 1) else 'undecided' if r['exit'] == 2 else 'checker-error'}")
        rows.append(f"| `{bid}` | {esc(m.get('summary', '')[:120])} | {', '.join(res)} | {esc(why[:110])} |")
    head = f"{pairs} (change, property) pairs: **{alarms} alarms (exit 1)**, {ok} fully re-verified (exit 0: every obligation of the changed code is discharged again), {und} undecided (exit 2/3)."
    return head + '\n\n' + '\n'.join(rows)


def counts_table():
    rows = ['| id | obligations discharged | functions / lemmas | static | canaries | termination variants | bounded evaluations | wall s |', '|---|---|---|---|---|---|---|---|']
    for f in sorted(glob.glob(os.path.join(V, 'evidence', 'C*.json'))):
        e = json.load(open(f))
        c = e.get('coverage', e)
        def g(k, d=None):
            return c.get(k, e.get(k, d))
        fns = g('functions', [])
        rows.append(f"| {e.get('property_id', os.path.basename(f)[:-5])} | {g('discharged', '?')}/{g('obligations', '?')} | {len(fns)} | {len(g('static_obligations', []))} | {(g('vacuity') or {}).get('canaries', '?')} | "
                    f"{len(g('termination_variants', []))} | {sum(b.get('evaluations', 0) for b in g('bounded_standins', []))} | {e.get('wall_s', '?')} |")
    return '\n'.join(rows)


def main():
    p = os.path.join(V, 'DESIGN.md')
    s = open(p).read()
    for name, fn in (('seeded-table', seeded_table), ('benign-table', benign_table), ('counts-table', counts_table)):
        a, b = f'<!-- BEGIN {name} -->', f'<!-- END {name} -->'
        if a in s and b in s:
            s = s[:s.index(a) + len(a)] + '\n' + fn() + '\n' + s[s.index(b):]
    open(p, 'w').write(s)


if __name__ == '__main__':
    main()

#!/usr/bin/env python3
"""Systematic single-edit mutation of every function under contract, to measure how tightly the CONTRACTS pin the code down
(a weak contract keeps verifying after the behaviour it should fix has changed).

For each mutant (one AST edit in one contracted function, written to a scratch copy of /repo -- never to /repo itself):
  1. the obligations of that function are regenerated from the mutated source and discharged (deductive side only);
     killed-by-proof = some obligation is no longer proved, or the contract no longer applies;
  2. survivors are run against the repository's own tests (killed-by-tests) and against the executable contracts of the
     properties the function belongs to (killed-by-oracle);
  3. what survives everything is listed for inspection: an equivalent mutant, or a blind spot.
usage: python3-vt tools/mutate_contracts.py [substring of qualified name ...] [--max N] [--out file.json]"""
import ast, copy, json, os, shutil, subprocess, sys, tempfile, time
VERIF = os.path.dirname(os.path.dirname(os.path.abspath(__file__)))
sys.path.insert(0, VERIF)

CMP = {ast.Lt: ast.LtE, ast.LtE: ast.Lt, ast.Gt: ast.GtE, ast.GtE: ast.Gt, ast.Eq: ast.NotEq, ast.NotEq: ast.Eq, ast.In: ast.NotIn, ast.NotIn: ast.In,
       ast.Is: ast.IsNot, ast.IsNot: ast.Is}
BIN = {ast.Add: ast.Sub, ast.Sub: ast.Add, ast.Mult: ast.Add, ast.Div: ast.Mult}


def sites(fn):
    """-> list of (description, mutator(node copy of fn) ) ; each mutator edits the k-th matching node of a fresh deep copy"""
    out = []
    nodes = list(ast.walk(fn))
    for idx, n in enumerate(nodes):
        ln = getattr(n, 'lineno', 0)
        if isinstance(n, ast.Compare) and len(n.ops) == 1 and type(n.ops[0]) in CMP:
            out.append((f'L{ln}: {type(n.ops[0]).__name__} -> {CMP[type(n.ops[0])].__name__}', idx, lambda m: setattr(m, 'ops', [CMP[type(m.ops[0])]()])))
            if type(n.ops[0]) in (ast.Lt, ast.LtE, ast.Gt, ast.GtE):
                flip = {ast.Lt: ast.Gt, ast.LtE: ast.GtE, ast.Gt: ast.Lt, ast.GtE: ast.LtE}
                out.append((f'L{ln}: {type(n.ops[0]).__name__} -> {flip[type(n.ops[0])].__name__}', idx, lambda m, flip=flip: setattr(m, 'ops', [flip[type(m.ops[0])]()])))
        if isinstance(n, ast.BinOp) and type(n.op) in BIN:
            out.append((f'L{ln}: {type(n.op).__name__} -> {BIN[type(n.op)].__name__}', idx, lambda m: setattr(m, 'op', BIN[type(m.op)]())))
        if isinstance(n, ast.BoolOp):
            out.append((f'L{ln}: {type(n.op).__name__} flipped', idx, lambda m: setattr(m, 'op', ast.Or() if isinstance(m.op, ast.And) else ast.And())))
        if isinstance(n, ast.UnaryOp) and isinstance(n.op, ast.Not):
            out.append((f'L{ln}: not removed', idx, 'unwrap-not'))
        if isinstance(n, ast.Constant) and isinstance(n.value, int) and not isinstance(n.value, bool) and not isinstance(getattr(n, '_parent', None), ast.JoinedStr):
            out.append((f'L{ln}: constant {n.value} -> {n.value + 1}', idx, lambda m: setattr(m, 'value', m.value + 1)))
            if n.value != 0:
                out.append((f'L{ln}: constant {n.value} -> {n.value - 1}', idx, lambda m: setattr(m, 'value', m.value - 1)))
        if isinstance(n, ast.Constant) and isinstance(n.value, bool):
            out.append((f'L{ln}: {n.value} -> {not n.value}', idx, lambda m: setattr(m, 'value', not m.value)))
        if isinstance(n, (ast.Assign, ast.AugAssign)) or (isinstance(n, ast.Expr) and isinstance(n.value, ast.Call) and not (isinstance(n.value.func, ast.Attribute) and isinstance(n.value.func.value, ast.Name) and n.value.func.value.id == 'logging')):
            out.append((f'L{ln}: statement deleted: {ast.unparse(n)[:50]}', idx, 'delete'))
        if isinstance(n, ast.Call) and len(n.args) >= 2 and not (isinstance(n.func, ast.Attribute) and isinstance(n.func.value, ast.Name) and n.func.value.id == 'logging'):
            out.append((f'L{ln}: first two arguments of {ast.unparse(n.func)[:30]} swapped', idx, lambda m: m.args.__setitem__(slice(0, 2), [m.args[1], m.args[0]])))
        if isinstance(n, ast.Subscript) and isinstance(n.slice, ast.Constant) and n.slice.value in (0, 1) and isinstance(n.ctx, ast.Load):
            out.append((f'L{ln}: index [{n.slice.value}] -> [{1 - n.slice.value}]', idx, lambda m: setattr(m.slice, 'value', 1 - m.slice.value)))
        if isinstance(n, ast.If) and not n.orelse:
            out.append((f'L{ln}: condition negated', idx, lambda m: setattr(m, 'test', ast.UnaryOp(op=ast.Not(), operand=m.test))))
        if isinstance(n, ast.Continue) or isinstance(n, ast.Break):
            out.append((f'L{ln}: {type(n).__name__} removed', idx, 'delete'))
    return out


def apply(tree, qual, idx, action):
    """mutate node number idx (ast.walk order) of function `qual` inside a deep copy of the module tree"""
    t = copy.deepcopy(tree)
    fn = find(t, qual)
    nodes = list(ast.walk(fn))
    n = nodes[idx]
    if action in ('delete', 'unwrap-not'):
        for p in ast.walk(fn):
            for field, val in ast.iter_fields(p):
                if isinstance(val, list) and any(x is n for x in val):
                    if action == 'delete':
                        val[[i for i, x in enumerate(val) if x is n][0]] = ast.Pass()
                    return t
                if val is n and action == 'unwrap-not':
                    setattr(p, field, n.operand)
                    return t
            # unwrap-not inside a list field (BoolOp.values)
            for field, val in ast.iter_fields(p):
                if isinstance(val, list) and action == 'unwrap-not':
                    for i, x in enumerate(val):
                        if x is n:
                            val[i] = n.operand
                            return t
        return None
    action(n)
    return t


def find(tree, qual):
    body, node = tree.body, None
    for p in qual.split('.'):
        hit = [x for x in body if isinstance(x, (ast.ClassDef, ast.FunctionDef)) and x.name == p]
        if not hit:
            return None
        node, body = hit[0], hit[0].body
    return node


def main():
    args = [a for a in sys.argv[1:] if not a.startswith('--')]
    mx = int(sys.argv[sys.argv.index('--max') + 1]) if '--max' in sys.argv else 10 ** 9
    outp = sys.argv[sys.argv.index('--out') + 1] if '--out' in sys.argv else os.path.join(VERIF, 'mutation', 'RESULTS.json')
    from pyvc.registry import load_contracts
    from contracts.props import PROPS
    contracts, _, _ = load_contracts()
    quals = [q for q, c in contracts.items() if not c.get('external') and not c.get('external_for_main') and not c.get('virtual') and '@' not in q and not c.get('instances')
             and (not args or any(a in q for a in args))]
    results = json.load(open(outp)) if os.path.exists(outp) else {}
    done = 0
    for q in quals:
        modname, rest = q.split('.', 1)
        src_path = f'/repo/{modname}.py'
        tree = ast.parse(open(src_path).read())
        fn = find(tree, rest)
        if fn is None:
            continue
        variants = [k for k in contracts if k.split('@')[0] == q]          # 'f' and 'f@suffix': several contracts cover one function
        props = sorted({p for p in PROPS for k in variants if k in PROPS[p]['functions']})
        for desc, idx, action in sites(fn):
            key = f'{q} :: {desc}'
            if key in results or done >= mx:
                continue
            t = apply(tree, rest, idx, action)
            if t is None:
                continue
            try:
                text = ast.unparse(ast.fix_missing_locations(t))
                compile(text, src_path, 'exec')
            except Exception:
                continue
            S = tempfile.mkdtemp(prefix='mutc-')
            try:
                for f in os.listdir('/repo'):
                    if f.endswith('.py'):
                        shutil.copy(os.path.join('/repo', f), S)
                shutil.copytree('/repo/inputs', os.path.join(S, 'inputs'))
                shutil.copytree('/repo/tests', os.path.join(S, 'tests'))
                os.makedirs(os.path.join(S, 'outputs'), exist_ok=True)
                open(os.path.join(S, f'{modname}.py'), 'w').write(text)
                r = dict(function=q, mutation=desc, properties=props)
                env = dict(os.environ, PYVC_REPO=S)
                pr = dict(obligations=0, inapplicable=[], unproved=[])
                for k in variants:
                    p = subprocess.run(['python3-vt', os.path.join(VERIF, 'tools', 'prove_function.py'), k], cwd=VERIF, env=env, capture_output=True, text=True, timeout=900)
                    try:
                        one = json.loads(p.stdout.strip().splitlines()[-1])
                    except Exception:
                        one = dict(error=(p.stdout + p.stderr)[-300:])
                    if one.get('error'):
                        pr['error'] = one['error']
                    pr['obligations'] += one.get('obligations', 0)
                    pr['inapplicable'] += one.get('inapplicable', [])
                    pr['unproved'] += one.get('unproved', [])
                r['proof'] = pr
                killed = bool(pr.get('error') or pr.get('inapplicable') or pr.get('unproved'))
                r['killed_by_proof'] = killed
                if not killed:
                    tp = subprocess.run(['/venv/bin/python', '-m', 'pytest', '-q', '-x', '-p', 'no:cacheprovider', '--timeout=120'], cwd=S, capture_output=True, text=True, timeout=900)
                    r['killed_by_tests'] = tp.returncode != 0
                    fails = []
                    for pp in props:
                        if fails:           # one kill is enough to classify the mutant
                            break
                        try:
                            op = subprocess.run(['/venv/bin/python', os.path.join(VERIF, 'oracle', 'run.py'), pp, '--repo', S, '--out', os.path.join(S, 'replays')], capture_output=True, text=True, timeout=150)
                            d = json.loads(op.stdout.strip().splitlines()[-1])
                            if d.get('failures') or d.get('error'):
                                fails.append(pp + ': ' + (d['failures'][0]['clause'] if d.get('failures') else 'error ' + str(d.get('error'))[:80]))
                        except subprocess.TimeoutExpired:
                            fails.append(pp + ': oracle timeout (the mutant does not terminate)')
                        except Exception as e:
                            fails.append(pp + f': oracle crashed {type(e).__name__}')
                    r['killed_by_oracle'] = fails
                results[key] = r
                done += 1
                print(('KILLED-PROOF ' if killed else ('SURVIVED-PROOF tests=%s oracle=%s ' % ('killed' if r['killed_by_tests'] else 'pass', 'killed' if r['killed_by_oracle'] else 'pass'))) + key, flush=True)
            finally:
                shutil.rmtree(S, ignore_errors=True)
            if done % 10 == 0:
                os.makedirs(os.path.dirname(outp), exist_ok=True)
                json.dump(results, open(outp, 'w'), indent=1)
    os.makedirs(os.path.dirname(outp), exist_ok=True)
    json.dump(results, open(outp, 'w'), indent=1)
    tot = len(results)
    kp = sum(1 for r in results.values() if r['killed_by_proof'])
    surv = [k for k, r in results.items() if not r['killed_by_proof']]
    print(f'{tot} mutants: {kp} killed by the obligations of the mutated function alone; {len(surv)} survive the proof, of which '
          f'{sum(1 for k in surv if results[k]["killed_by_tests"])} are killed by the repository tests, {sum(1 for k in surv if results[k]["killed_by_oracle"])} by the executable contracts, '
          f'{sum(1 for k in surv if not results[k]["killed_by_tests"] and not results[k]["killed_by_oracle"])} by nothing')


if __name__ == '__main__':
    main()

#!/usr/bin/env python3
"""obligations of ONE contracted function (from $PYVC_REPO), discharged; prints one JSON line"""
import json, sys, os
sys.path.insert(0, os.path.dirname(os.path.dirname(os.path.abspath(__file__))))
from pyvc.registry import make_gen
from pyvc.discharge import discharge
import pyvc.check as CK
q = sys.argv[1]
g = make_gen()
try:
    obls, infos, inapp = CK.gen_obligations(g, dict(functions=[q]))
except Exception as e:
    print(json.dumps(dict(error=f'{type(e).__name__}: {e}')))
    sys.exit(0)
res = discharge(obls, timeout=10) if obls else []
print(json.dumps(dict(obligations=len(obls), inapplicable=[w.splitlines()[0][:160] for _, w in inapp],
                      unproved=[(r['name'], r['status']) for r in res if r['status'] != 'proved'][:6])))

#!/usr/bin/env python3
"""Regenerates MANIFEST.json from contracts/props.py (run with python3-vt from /verif)."""
import json, os, sys
sys.path.insert(0, os.path.dirname(os.path.dirname(os.path.abspath(__file__))))
from contracts.props import PROPS, NOT_APPLICABLE
ids = [json.loads(l)['id'] for l in open('properties.jsonl')]
checks = []
for p in ids:
    if p not in PROPS:
        continue
    P = PROPS[p]
    checks.append(dict(
        property_id=p,
        quick_cmd=f"python3-vt pyvc/check.py {p} --tier quick",
        thorough_cmd=f"python3-vt pyvc/check.py {p} --tier thorough",
        evidence_file=f"evidence/{p}.json",
        replay_cmd_template="/venv/bin/python oracle/replay.py {path}",
        engine="pyvc",
        level_claimed=dict(category="proof", text=P['level_text'], design_ref=P.get('design_ref', 'DESIGN.md section 6 ' + p)),
        level_note=P['level_note'],
        technique="contract-based deductive verification: sidecar contracts on the real functions, VCs generated from /repo's AST on every run, discharged by z3/cvc5; executable reading of the same contracts as bounded replay/witness search",
    ))
m = dict(
    version=1,
    setup_cmd="mkdir -p evidence replays",
    hooks=dict(guard="CONDREWARDS_VERIF", enable="no hooks: contracts are sidecar files under /verif/contracts keyed by qualified function name and loop ordinal; nothing in /repo reads the guard",
               baseline_off_cmd="cd /repo && /venv/bin/python -m pytest -ra -q -p no:cacheprovider --timeout=900 --continue-on-collection-errors", source_commits=[], add_only=True),
    engines=[dict(name="pyvc", path="pyvc/", serves_properties=[c['property_id'] for c in checks],
                  kind_free_text="home-made deductive verifier for a Python subset: symbolic execution of the real AST against sidecar contracts (pre/post/frame/loop invariants/raises), one SMT query per obligation in its own z3/cvc5 subprocess; plus oracle/: executable contracts run on the real code for replay and bounded witness search")],
    checks=checks,
    notes="exit codes of every check: 0 held, 1 violation (VIOLATION line), 2 undecided (an obligation neither proved nor refuted with a replayed input, or a contract that no longer applies), 3 checker error. See DESIGN.md.",
    not_applicable=[dict(property_id=p, reason=NOT_APPLICABLE.get(p, "check not built yet (work in progress; see DESIGN.md section 9 for the build order)")) for p in ids if p not in PROPS],
)
json.dump(m, open('MANIFEST.json', 'w'), indent=1)
print('checks:', [c['property_id'] for c in checks], 'n/a:', [x['property_id'] for x in m['not_applicable']])

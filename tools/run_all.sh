#!/bin/bash
# runs every registered quick check on /repo and prints id, exit status, summary (used before committing evidence)
cd "$(dirname "$0")/.."
bad=0
for p in C01 C02 C03 C04 C05 C06 C07 C08 C09 C10 C11 C12 C13 C14 C15 C16 C17; do
  out=$(timeout 1800 python3-vt pyvc/check.py $p "$@" 2>&1); rc=$?
  echo "$p exit=$rc $(echo "$out" | tail -1 | cut -c1-160)"
  if [ $rc -ne 0 ]; then bad=1; echo "$out" | grep -E "VIOLATION|UNDECIDED|CHECKER|REFUTED" | head -5; fi
done
exit $bad

#!/bin/bash
# usage: try_mutants.sh <dir-with-Cxx/x/patch.diff> [oracle|check] [filter]
# applies each patch to a scratch copy of /repo (never to /repo) and runs the property's oracle or full check on it
SRC=${1:-/tmp/mutout}; MODE=${2:-oracle}; FILT=${3:-}
for d in $SRC/*/*/; do
  [ -f "$d/patch.diff" ] || continue
  case "$d" in *"$FILT"*) ;; *) continue;; esac
  prop=$(python3 -c "import json,sys; print(json.load(open('$d/meta.json'))['property'])" 2>/dev/null || basename $(dirname $d))
  S=$(mktemp -d /tmp/scr-XXXX); cp -r /repo/*.py /repo/inputs $S/ 2>/dev/null; mkdir -p $S/outputs
  (cd $S && git init -q . 2>/dev/null && git apply "$d/patch.diff" 2>/dev/null) || (cd $S && patch -p1 -s < "$d/patch.diff")
  if [ "$MODE" = oracle ]; then
    out=$(cd /verif && timeout 600 /venv/bin/python oracle/run.py $prop --tier quick --seed 0 --repo $S --out /tmp/scr-replays 2>&1 | tail -1)
    echo "$d $prop: $(echo "$out" | python3 -c "import sys,json; r=json.loads(sys.stdin.read()); print('evals',r['evaluations'],'FAILS',[f['clause'] for f in r['failures']], r.get('error','')[:300])" 2>&1 | tail -1)"
  else
    out=$(cd /verif && PYVC_REPO=$S timeout 900 python3-vt pyvc/check.py $prop --tier quick 2>&1 | grep -E "VIOLATION|UNDECIDED|CHECKER|exit=" | cut -c1-220 | head -6)
    echo "== $d $prop"; echo "$out"
  fi
  rm -rf $S
done

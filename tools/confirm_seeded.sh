#!/bin/bash
# usage: confirm_seeded.sh <src dir with Cxx/x/{patch.diff,demo.py,meta.json}> [2] -- confirms each seeded change in a scratch git worktree of /repo
# (tests still pass with the change, the demonstration fails with it and passes without it), then copies it to /verif/seeded/<prop>-<x>/
SRC=${1:-/tmp/mutout}
ROUND=${2:-1}   # round 2: a,b are stored as c,d; round 3: as e,f (earlier directories are never overwritten)
for d in $SRC/C*/[ab]/; do
  [ -f "$d/patch.diff" ] || continue
  prop=$(basename $(dirname $d)); x=$(basename $d); [ "$ROUND" = 2 ] && x=$(echo $x | tr ab cd); [ "$ROUND" = 3 ] && x=$(echo $x | tr ab ef); [ "$ROUND" = 4 ] && x=$(echo $x | tr ab gh); [ "$ROUND" = 5 ] && x=$(echo $x | tr ab ij); id="$prop-$x"
  W=/tmp/sw-$id; rm -rf $W; git -C /repo worktree add -q --detach $W HEAD || continue
  ( cd $W && git apply "$d/patch.diff" ) || { echo "$id: patch does not apply"; git -C /repo worktree remove --force $W; continue; }
  tests=$(cd $W && timeout 600 /venv/bin/python -m pytest -q -p no:cacheprovider 2>&1 | tail -1)
  timeout 300 /venv/bin/python "$d/demo.py" $W > /tmp/demo-$id.out 2>&1; with=$?
  ( cd $W && git checkout -q -- . && git clean -fdq )
  timeout 300 /venv/bin/python "$d/demo.py" $W > /dev/null 2>&1; without=$?
  git -C /repo worktree remove --force $W
  echo "$id: tests='$tests' demo_with_change=$with demo_without=$without"
  if echo "$tests" | grep -q "57 passed" && [ $with -ne 0 ] && [ $without -eq 0 ]; then
    mkdir -p /verif/seeded/$id; cp "$d/patch.diff" "$d/demo.py" /verif/seeded/$id/
    python3 - "$d/meta.json" /verif/seeded/$id/meta.json "$tests" $with $without <<'PY'
import json,sys
m=json.load(open(sys.argv[1]))
m['confirmed']={'how':'scratch git worktree of /repo at HEAD (removed afterwards): git apply patch.diff; /venv/bin/python -m pytest -q; demo.py <worktree> with and without the change','tests_with_change':sys.argv[3],'demo_exit_with_change':int(sys.argv[4]),'demo_exit_without_change':int(sys.argv[5])}
m['breaks']=m.get('property')
json.dump(m,open(sys.argv[2],'w'),indent=1)
PY
  else echo "   NOT KEPT"; fi
done

#!/usr/bin/env python3
"""Runs the property's quick check against every seeded change under seeded/ (each applied to a scratch copy of /repo, never
to /repo itself) and writes seeded/RESULTS.json: exit code, VIOLATION lines, failed obligations."""
import glob, json, os, shutil, subprocess, sys, tempfile, time
VERIF = os.path.dirname(os.path.dirname(os.path.abspath(__file__)))
only = sys.argv[1:] 
out = {}
for d in sorted(glob.glob(os.path.join(VERIF, 'seeded', '*', 'patch.diff'))):
    sid = os.path.basename(os.path.dirname(d))
    if only and not any(o in sid for o in only):
        continue
    meta = json.load(open(os.path.join(os.path.dirname(d), 'meta.json')))
    prop = meta.get('breaks') or meta['property']
    S = tempfile.mkdtemp(prefix='seeded-')
    for f in glob.glob('/repo/*.py'):
        shutil.copy(f, S)
    shutil.copytree('/repo/inputs', os.path.join(S, 'inputs'))
    os.makedirs(os.path.join(S, 'outputs'), exist_ok=True)
    subprocess.run(['patch', '-p1', '-s', '-i', d], cwd=S, check=True)
    t0 = time.time()
    env = dict(os.environ, PYVC_REPO=S)
    p = subprocess.run(['python3-vt', os.path.join(VERIF, 'pyvc', 'check.py'), prop, '--tier', 'quick', '--evidence', os.path.join(S, 'evidence.json')], cwd=VERIF, env=env, capture_output=True, text=True, timeout=1800)
    shutil.rmtree(S, ignore_errors=True)
    lines = p.stdout.splitlines()
    out[sid] = dict(property=prop, exit=p.returncode, seconds=round(time.time() - t0, 1),
                    violations=[l for l in lines if l.startswith('VIOLATION')][:4],
                    undecided=[l for l in lines if l.startswith(('UNDECIDED', 'REFUTED'))][:6],
                    checker_error=[l for l in lines if l.startswith('CHECKER')][:2],
                    summary=lines[-1] if lines else p.stderr[-300:])
    print(sid, prop, 'exit', p.returncode, len(out[sid]['violations']), 'violation lines;', len(out[sid]['undecided']), 'undecided', flush=True)
path = os.path.join(VERIF, 'seeded', 'RESULTS.json')
prev = json.load(open(path)) if os.path.exists(path) and only else {}
prev.update(out)
json.dump(prev, open(path, 'w'), indent=1)

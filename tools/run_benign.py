#!/usr/bin/env python3
"""Runs the quick checks of the named properties against every behaviour-preserving change under benign/ (each applied to a scratch
copy of /repo) and writes benign/RESULTS.json. Expected: never exit 1 (no VIOLATION line); exit 2 (undecided) is tolerated, 0 is ideal."""
import glob, json, os, shutil, subprocess, sys, tempfile, time
VERIF = os.path.dirname(os.path.dirname(os.path.abspath(__file__)))
only = sys.argv[1:]
out = {}
for d in sorted(glob.glob(os.path.join(VERIF, 'benign', '*', 'patch.diff'))):
    bid = os.path.basename(os.path.dirname(d))
    if only and not any(o in bid for o in only):
        continue
    meta = json.load(open(os.path.join(os.path.dirname(d), 'meta.json')))
    S = tempfile.mkdtemp(prefix='benign-')
    for f in glob.glob('/repo/*.py'):
        shutil.copy(f, S)
    shutil.copytree('/repo/inputs', os.path.join(S, 'inputs'))
    os.makedirs(os.path.join(S, 'outputs'), exist_ok=True)
    subprocess.run(['patch', '-p1', '-s', '-i', d], cwd=S, check=True)
    out[bid] = {}
    for prop in meta['properties']:
        env = dict(os.environ, PYVC_REPO=S)
        p = subprocess.run(['python3-vt', os.path.join(VERIF, 'pyvc', 'check.py'), prop, '--tier', 'quick', '--evidence', os.path.join(S, 'evidence.json')], cwd=VERIF, env=env, capture_output=True, text=True, timeout=1800)
        lines = p.stdout.splitlines()
        out[bid][prop] = dict(exit=p.returncode, violations=[l for l in lines if l.startswith('VIOLATION')][:3], undecided=[l[:200] for l in lines if l.startswith('UNDECIDED')][:4],
                              summary=lines[-1] if lines else p.stderr[-200:])
        print(bid, prop, 'exit', p.returncode, [l[:150] for l in lines if l.startswith(('VIOLATION', 'UNDECIDED', 'CHECKER'))][:2], flush=True)
    shutil.rmtree(S, ignore_errors=True)
path = os.path.join(VERIF, 'benign', 'RESULTS.json')
prev = json.load(open(path)) if os.path.exists(path) and only else {}
prev.update(out)
json.dump(prev, open(path, 'w'), indent=1)

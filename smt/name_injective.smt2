; C17 injectivity of the generated file name on whole-percent parameter sets.
; Each numeric field is a non-empty digit string (str(int) of a non-negative int / prob_to_str of k/100, by A-STRINT and
; the 99 ground obligations of prob_to_str); the flag suffix is "" or "_force_down". Two names are equal only if all nine
; components are equal. Negation asserted: unsat = lemma holds.
(set-logic ALL)
(define-fun digs ((s String)) Bool (str.in_re s (re.+ (re.range "0" "9"))))
(define-fun flag ((s String)) Bool (or (= s "") (= s "_force_down")))
(declare-fun a1 () String) (declare-fun a2 () String) (declare-fun a3 () String) (declare-fun a4 () String)
(declare-fun a5 () String) (declare-fun a6 () String) (declare-fun a7 () String) (declare-fun a8 () String) (declare-fun a9 () String)
(declare-fun b1 () String) (declare-fun b2 () String) (declare-fun b3 () String) (declare-fun b4 () String)
(declare-fun b5 () String) (declare-fun b6 () String) (declare-fun b7 () String) (declare-fun b8 () String) (declare-fun b9 () String)
(assert (and (digs a1) (digs a2) (digs a3) (digs a4) (digs a5) (digs a6) (digs a7) (digs a8) (flag a9)))
(assert (and (digs b1) (digs b2) (digs b3) (digs b4) (digs b5) (digs b6) (digs b7) (digs b8) (flag b9)))
(define-fun name ((s1 String) (s2 String) (s3 String) (s4 String) (s5 String) (s6 String) (s7 String) (s8 String) (s9 String)) String
  (str.++ "inputs/robot_" s1 "_w" s2 "_l" s3 "_r" s4 "_rb" s5 "_lb" s6 "_tb" s7 "_lt" s8 s9 ".py"))
(assert (= (name a1 a2 a3 a4 a5 a6 a7 a8 a9) (name b1 b2 b3 b4 b5 b6 b7 b8 b9)))
(assert (not (and (= a1 b1) (= a2 b2) (= a3 b3) (= a4 b4) (= a5 b5) (= a6 b6) (= a7 b7) (= a8 b8) (= a9 b9))))
(check-sat)

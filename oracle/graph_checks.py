"""Executable contracts of reverse_dfs.py (C07)."""
from collections import Counter
from lib import can_reach


def gen_graphs(rng, tier):
    n_rand = dict(quick=1500, thorough=30000)[tier]
    shaped = [
        ([[(1, 2)], [("a", 0), ("b", 2)], [(1, 2)]], [2]),
        ([[(1, 3)], [("a", 3), ("b", 2)], [(1, 3)], [(1, 3)]], [3]),
        ([[("l", 1), ("r", 1)], [(1, 1)]], [1]),
        ([[(1, 0)], [(1, 0)], [(1, 1)]], [0, 0]),
        ([[(0.5, 1), (0.5, 3)], [(1, 2)], [(1, 2)], [(1, 3)]], [1, 2]),
        ([[(1, 1)], [(1, 2)], [(1, 0)], [(1, 3)]], [3]),
        ([[(1, 1)], [(1, 0)], []], [2]),
    ]
    for tl, f in shaped:
        yield dict(tl=tl, finals=f)
    for depth in (1200, 3000):       # chains thousands of states long
        yield dict(tl=[[(1, i + 1)] for i in range(depth)] + [[(1, depth)]], finals=[depth])
        yield dict(tl=[[(1, depth)]] + [[(1, i)] for i in range(depth)], finals=[0])
    # larger, sparse graphs in which only a few widely spaced states reach a final state (a result assembled in hash or
    # insertion order is then not ascending; with a handful of small states every such order happens to be ascending)
    for i in range(n_rand // 10):
        n = rng.randint(9, 40)
        tl = [[] for _ in range(n)]
        fin = [rng.randrange(n) for _ in range(rng.randint(1, 2))]
        reach = set(fin)
        for _ in range(rng.randint(1, 5)):
            u = rng.randrange(n)
            tl[u].append((rng.choice(["a", 1]), rng.choice(sorted(reach))))
            reach.add(u)
        for _ in range(rng.randint(0, 3)):      # edges among states that do not reach
            others = [v for v in range(n) if v not in reach]
            if others:
                tl[rng.choice(others)].append(("x", rng.choice(others)))
        yield dict(tl=tl, finals=fin)
    for i in range(n_rand):
        n = rng.randint(1, 7)
        tl = []
        for u in range(n):
            k = rng.choice([0, 1, 1, 2, 2, 3, 4])
            tl.append([(rng.choice(["a", "b", 0.5, 1]), rng.randrange(n)) for _ in range(k)])
        fin = [rng.randrange(n) for _ in range(rng.randint(1, 3))]
        yield dict(tl=tl, finals=fin)


def _check_graph_once(inp, mods, rng=None):
    F = []
    rd = mods['reverse_dfs']
    tl, finals = inp['tl'], inp['finals']
    n = len(tl)
    import copy
    tl0, fin0 = copy.deepcopy(tl), list(finals)
    try:
        rev = rd.reverse_transition_list(tl)
    except BaseException as e:   # noqa
        return [({'C07'}, 'reversed-table-error', f'reverse_transition_list raised {type(e).__name__}: {e}')]
    if not isinstance(rev, dict):
        F.append(({'C07'}, 'reversed-table', f'not a dict: {type(rev).__name__}'))
    else:
        missing = [v for v in range(n) if v not in rev]
        if missing:
            F.append(({'C07'}, 'reversed-table-entry-for-every-state', f'no entry for states {missing[:5]}'))
        want = {}
        for u, ts in enumerate(tl):
            for _, v in ts:
                want.setdefault(v, Counter())[u] += 1
        for v in set(list(rev) + list(want)):
            got = Counter(rev.get(v, []))
            if got != want.get(v, Counter()):
                F.append(({'C07'}, 'reversed-table-once-per-transition', f'under state {v}: {dict(got)} but the transitions into it are {dict(want.get(v, Counter()))}'))
                break
    try:
        res = rd.reverse_dfs(tl, finals)
    except BaseException as e:   # noqa
        F.append(({'C07', 'C06'}, 'search-error', f'reverse_dfs raised {type(e).__name__}: {str(e)[:100]} (graph of {n} states)'))
        return F
    exp = sorted(s for s in can_reach(tl, set(finals)) if s not in set(finals))
    if res != exp:
        F.append(({'C07', 'C01'}, 'exact-sorted-once', f'returned {res[:12]!r}{"..." if len(res) > 12 else ""}, expected {exp[:12]!r}{"..." if len(exp) > 12 else ""}'))
    if tl != tl0 or finals != fin0:
        F.append(({'C07', 'C10'}, 'inputs-intact', 'reverse_dfs changed its arguments'))
    return F


def check_graph(inp, mods, rng=None):
    """the clauses on the graph as given, then -- the statement is about EVERY transition list, also one the caller has edited since an
    earlier search -- on the SAME list object after in-place edits of its inner lists (a transition removed, one added, one
    redirected; outer object and length unchanged), each time against the expectation computed afresh"""
    F = _check_graph_once(inp, mods, rng)
    if F:
        return F
    tl, finals = inp['tl'], inp['finals']
    n = len(tl)
    if n < 2:
        return F
    import copy
    saved = copy.deepcopy(tl)
    edits = []
    src = [u for u in range(n) if tl[u]]
    if src:
        u = src[(len(src) * 7) // 11 % len(src)]
        edits.append(('remove-last-transition-of-%d' % u, lambda: tl[u].pop()))
        edits.append(('redirect-first-transition-of-%d' % u, lambda: tl[u].__setitem__(0, (tl[u][0][0], (tl[u][0][1] + 1) % n))))
    edits.append(('add-transition-%d-to-%d' % (n - 1, 0), lambda: tl[n - 1].append(('zz', 0))))
    try:
        for what, do in edits:
            for u_ in range(n):            # every edit starts from the graph as given
                tl[u_][:] = saved[u_]
            do()
            G = _check_graph_once(dict(inp, tl=tl), mods, rng)
            if G:
                F.extend((p_, c_, f'after an in-place edit of the same list object ({what}; graph now {tl!r:.300}): {d_}') for p_, c_, d_ in G)
                break
    finally:
        for u in range(n):
            tl[u][:] = saved[u]
    return F

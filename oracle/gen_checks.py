"""Executable contracts of roberta_generator.py: parameter checks, random boards, file names (C15, C17)."""
import builtins
import itertools
import math
import random
import sys

NAN, INF = float('nan'), float('inf')


class Intercept:
    """run roberta_generator.main() with argv set, write_robots and open() intercepted (nothing touches the disk)"""

    def __init__(s, rg):
        s.rg = rg

    def run(s, argv):
        rg = s.rg
        rec = dict(written=None, opened=[], error=None)
        ow, oo, oa = rg.write_robots, builtins.open, sys.argv

        def fake_write(*a, **k):        # signature-transparent (the file name may be passed by keyword)
            a = list(a)
            file_name = a.pop(0) if a else k.pop('file_name')
            rec['written'] = (file_name, tuple(a))

        def fake_open(*args, **k):
            args = list(args)
            name = args.pop(0) if args else k.pop('file')
            mode = args.pop(0) if args else k.pop('mode', 'r')
            a = args
            if any(c in mode for c in 'wax+'):
                rec['opened'].append(name)
                raise PermissionError('intercepted')
            return oo(name, mode, *a, **k)
        rg.write_robots, builtins.open, sys.argv = fake_write, fake_open, ['roberta_generator.py'] + [str(x) for x in argv]
        try:
            rg.main()
        except SystemExit as e:
            rec['error'] = ('SystemExit', str(e))
        except BaseException as e:   # noqa
            rec['error'] = (type(e).__name__, str(e))
        finally:
            rg.write_robots, builtins.open, sys.argv = ow, oo, oa
        return rec


def in_range(seed, width, length, pr, pl, pt, pb, m):
    ok = seed >= 0 and width >= 1 and length >= 1 and m >= 1
    for p in (pr, pl, pt, pb):
        ok = ok and (0 < p < 1)
    return ok


def gen_params(rng, tier):
    base = dict(seed=0, width=3, length=3, pr=0.1, pl=0.1, pt=0.3, pb=0.1, m=6)
    yield dict(kind='check', **base)
    ints = dict(seed=[-1, 0, 1, -5], width=[-2, -1, 0, 1, 2], length=[-3, -1, 0, 1, 2], m=[-1, 0, 1, 2])
    for k, vs in ints.items():
        for v in vs:
            d = dict(base)
            d[k] = v
            yield dict(kind='check', **d)
    for k in ('pr', 'pl', 'pt', 'pb'):
        for v in (0.0, -0.0, 1.0, -0.1, 1.5, 1e-300, 5e-324, 1 - 2 ** -53, 0.5, NAN, INF, -INF, 0.9999999999999999):
            d = dict(base)
            d[k] = v
            yield dict(kind='check', **d)
    for w, l in itertools.product([-2, -1, 0, 1], repeat=2):     # two parameters out of range at once
        d = dict(base)
        d['width'], d['length'] = w, l
        yield dict(kind='check', **d)
    for a, b in itertools.combinations(['pr', 'pl', 'pt', 'pb'], 2):
        d = dict(base)
        d[a], d[b] = NAN, -1.0
        yield dict(kind='check', **d)
    # accepted probabilities that are NOT whole percentages, on boards large enough for the loose-tile frequency to show
    for pt in (0.004, 0.996, 0.125, 0.5551):
        yield dict(kind='check', **dict(base, width=12, length=12, pt=pt, pr=0.123, pl=0.0049, pb=0.3333, seed=5))
    # the command line end to end (nothing intercepted but the file system): non-square shapes, both flags
    for (w, l, fd) in [(4, 2, False), (2, 3, True), (1, 3, False), (3, 1, True), (2, 2, False)] + ([(5, 2, True), (1, 1, False), (2, 5, False)] if tier == 'thorough' else []):
        yield dict(kind='e2e', seed=rng.randrange(100), width=w, length=l, fd=fd, pr=0.2, pl=0.3, pt=0.4, pb=0.15, m=rng.choice([1, 3, 6]))
    n = dict(quick=150, thorough=3000)[tier]
    for i in range(n):
        yield dict(kind='board', seed=rng.choice([0, 1, 2, 47, rng.randrange(10 ** 6)]), length=rng.randint(1, 6), width=rng.randint(1, 6),
                   p=rng.choice([0.01, 0.3, 0.5, 0.99, rng.random() * 0.98 + 0.01]), m=rng.choice([1, 2, 6, 10]), fd=bool(i % 2),
                   stub=rng.choice([None, None, None, 0.0, 1 - 2 ** -53, 0.5]))


def check_e2e(inp, mods):
    """python roberta_generator.py <accepted parameters>: exactly one file appears under inputs/, it reads back as three games of the
    requested shape, and each passes the solver's own validation"""
    from board_checks import MemFS
    rg, tad, cr = mods['roberta_generator'], mods['tad'], mods['conditionalrewards']
    argv = [f'--seed={inp["seed"]}', f'--width={inp["width"]}', f'--length={inp["length"]}', f'--prob_robot_break={inp["pr"]}', f'--prob_light_break={inp["pl"]}',
            f'--prob_loose_tile={inp["pt"]}', f'--prob_tile_break={inp["pb"]}', f'--max_reward={inp["m"]}'] + (['--force_down'] if inp['fd'] else [])
    how = f'[python roberta_generator.py {" ".join(argv)}] '
    old_argv = sys.argv
    with MemFS() as fs:
        sys.argv = ['roberta_generator.py'] + argv
        try:
            rg.main()
        except BaseException as e:   # noqa
            return [({'C11', 'C15'}, 'in-range-generates', how + f'ended with {type(e).__name__}: {e}')]
        finally:
            sys.argv = old_argv
        files = dict(fs.files)
        if len(files) != 1 or not list(files)[0].startswith('inputs/'):
            return [({'C11'}, 'one-file-under-inputs', how + f'files written: {list(files)}')]
        name = list(files)[0]
        try:
            games = cr.read_dict_from_file(name)
        except BaseException as e:   # noqa
            return [({'C11'}, 'file-loadable', how + f'reading {name} back failed with {type(e).__name__}: {str(e)[:200]}')]
    F = []
    if not isinstance(games, dict) or list(games) != ['game_a', 'game_b', 'game_c']:
        return [({'C11'}, 'three-games', how + f'the file holds {list(games) if isinstance(games, dict) else type(games).__name__}')]
    nt = inp['width'] * inp['length']
    for key, groups in (('game_a', 4), ('game_b', 7), ('game_c', 10)):
        g = games[key]
        try:
            n = len(g['players'])
            sg = tad.StochasticGame(**g)
            sg.check_game()
            sg.init_states()
        except BaseException as e:   # noqa
            F.append(({'C11'}, 'validated-by-the-solver', how + f'{key}: {type(e).__name__}: {str(e)[:200]}'))
            continue
        if n != groups * nt + 2:
            F.append(({'C11', 'C08'}, 'board-shape', how + f'{key} has {n} states, a {inp["length"]}x{inp["width"]} board gives {groups * nt + 2}'))
    return F[:3]


def check_params(inp, mods, rng=None):
    rg = mods['roberta_generator']
    F = []
    if inp['kind'] == 'e2e':
        return check_e2e(inp, mods)
    if inp['kind'] == 'check':
        args = (inp['seed'], inp['width'], inp['length'], inp['pr'], inp['pl'], inp['pt'], inp['pb'], inp['m'])
        want = in_range(*args)
        try:
            rg.check_input(*args)
            got = True
        except ValueError:
            got = False
        except BaseException as e:   # noqa
            F.append(({'C15'}, 'check-input-other-error', f'check_input{args} raised {type(e).__name__}: {e}'))
            return F
        if got and not want:
            F.append(({'C15', 'C11'}, 'out-of-range-refused', f'check_input accepted the out-of-range parameter set seed={args[0]} width={args[1]} length={args[2]} probs={args[3:7]} max_reward={args[7]}'))
        if want and not got:
            F.append(({'C15', 'C11'}, 'in-range-accepted', f'check_input refused the documented parameter set {args}'))
        # main refuses before anything is written
        argv = ['-s', inp['seed'], '-w', inp['width'], '-l', inp['length'], '-p', inp['pr'], '-q', inp['pl'], '-t', inp['pt'], '-r', inp['pb'], '-m', inp['m']]
        argv = [(f'{a}') for a in argv]
        rec = Intercept(rg).run([f'--seed={inp["seed"]}', f'--width={inp["width"]}', f'--length={inp["length"]}', f'--prob_robot_break={inp["pr"]}',
                                 f'--prob_light_break={inp["pl"]}', f'--prob_loose_tile={inp["pt"]}', f'--prob_tile_break={inp["pb"]}', f'--max_reward={inp["m"]}'])
        if not want:
            if rec['written'] is not None or rec['opened']:
                F.append(({'C15'}, 'refused-before-writing', f'main wrote {rec["written"][0] if rec["written"] else rec["opened"]} for the out-of-range set {args}'))
            elif not rec['error'] or rec['error'][0] != 'ValueError':
                F.append(({'C15'}, 'refused-with-valueerror', f'main ended with {rec["error"]} for the out-of-range set {args}'))
        else:
            if rec['error'] or rec['written'] is None:
                F.append(({'C15', 'C11'}, 'in-range-generates', f'main failed with {rec["error"]} for the documented set {args}'))
            else:
                # the board the command line produces is THE board of these parameters (the requested loose-tile probability, reward
                # bound and shape, not rounded or otherwise adjusted ones), and the three break probabilities reach the writers as given
                try:
                    want_board = rg.gen_rnd_board(inp['seed'], inp['length'], inp['width'], inp['pt'], inp['m'], False)
                    got = rec['written'][1]
                    if len(got) == 8:
                        if (got[0], got[1]) != (inp['length'], inp['width']) or tuple(got[2:5]) != tuple(want_board):
                            F.append(({'C15', 'C11'}, 'main-board-is-the-board-of-its-parameters',
                                      f'main with {args} hands write_robots a {got[0]}x{got[1]} board that differs from gen_rnd_board(seed={inp["seed"]}, length={inp["length"]}, width={inp["width"]}, prob_loose_tile={inp["pt"]!r}, max_reward={inp["m"]}, force_down=False)'))
                        if tuple(got[5:8]) != (inp['pb'], inp['pr'], inp['pl']):
                            F.append(({'C15', 'C11'}, 'main-passes-the-given-probabilities', f'main with {args} hands write_robots (tile, robot, light) = {tuple(got[5:8])!r}, given {(inp["pb"], inp["pr"], inp["pl"])!r}'))
                except BaseException as e:   # noqa
                    F.append(({'C15', 'C11'}, 'board-error', f'gen_rnd_board for the accepted set {args} raised {type(e).__name__}: {e}'))
        return F
    # boards
    seed, L, W, p, m, fd, stub = inp['seed'], inp['length'], inp['width'], inp['p'], inp['m'], inp['fd'], inp['stub']
    orig = random.random
    try:
        if stub is not None:
            random.random = lambda: stub
        b1_ret = rg.gen_rnd_board(seed, L, W, p, m, fd)
        import copy as _copy
        b1 = _copy.deepcopy(b1_ret)
        for part in b1_ret:                 # the caller owns the board it was given and may edit it: a later call must not see that
            for row in (part if isinstance(part, list) else []):
                if isinstance(row, list):
                    for k_ in range(len(row)):
                        row[k_] = 99
                    row.append(99)
        if stub is None:
            rg.gen_rnd_board(seed + 1, 2, 2, 0.5, 3, not fd)          # an unrelated draw in between
            random.random()
        b2 = rg.gen_rnd_board(seed, L, W, p, m, fd)
    except BaseException as e:   # noqa
        random.random = orig
        return [({'C15', 'C11'}, 'board-error', f'gen_rnd_board{(seed, L, W, p, m, fd)} raised {type(e).__name__}: {e}')]
    finally:
        random.random = orig
    if b1 != b2:
        F.append(({'C15'}, 'reproducible', f'two calls with seed={seed} {L}x{W} p={p} m={m} fd={fd} differ (the board returned by the first call was edited by its caller in between): {b1!r} vs {b2!r}'[:600]))
    moves, rewards, loose = b1
    for nm, g in (('moves', moves), ('rewards', rewards), ('loose_tiles', loose)):
        if len(g) != L or any(len(r) != W for r in g):
            F.append(({'C15', 'C11'}, 'size', f'{nm} is not {L}x{W}: {g!r}'))
            return F
    for i in range(L):
        for j in range(W):
            r = rewards[i][j]
            if not (isinstance(r, int) and 0 <= r <= m):
                F.append(({'C15', 'C11'}, 'reward-range', f'reward {r!r} at ({i},{j}) outside 0..{m} (random.random stubbed to {stub})'))
            if loose[i][j] not in (0, 1):
                F.append(({'C15'}, 'loose-flag', f'loose flag {loose[i][j]!r} at ({i},{j})'))
            if moves[i][j] not in ((0, 1, 2, 3) if fd else (0, 1, 2)):
                F.append(({'C15', 'C11'}, 'arrows', f'arrow {moves[i][j]!r} at ({i},{j}) with force_down={fd}'))
        if fd and 3 not in moves[i]:
            F.append(({'C15'}, 'force-down-row', f'row {i} of {L} has no down-only tile with force_down set: {moves[i]} (seed={seed}, {L}x{W})'))
    if stub is not None and stub < p and any(x != 1 for row in loose for x in row):
        F.append(({'C15'}, 'loose-flag-definition', f'draw {stub} < {p} must give a loose tile'))
    if stub is not None and stub >= p and any(x != 0 for row in loose for x in row):
        F.append(({'C15'}, 'loose-flag-definition', f'draw {stub} >= {p} must give a firm tile'))
    return F[:4]


def gen_names(rng, tier):
    for fld in ('pr', 'pl', 'pb', 'pt'):
        yield dict(kind='sweep', field=fld, fd=(fld in ('pl', 'pt')))
    # seeds far beyond float precision (clock- or hash-derived 64-bit seeds): neighbouring seeds must still get different names
    for big in (2 ** 53 + 1, 2 ** 53 + 2, 10 ** 18 + 1, 2 ** 63 - 1, 12345678901234567890):
        yield dict(kind='pair', a=[big, 2, 3, 4, 10, 20, 30, 40, False], b=[big + 1, 2, 3, 4, 10, 20, 30, 40, False], perturb=9)
    n = dict(quick=60, thorough=1500)[tier]
    for i in range(n):
        yield dict(kind='pair', a=[rng.randrange(0, 50), rng.randint(1, 12), rng.randint(1, 12), rng.randint(1, 11)] + [rng.randint(1, 99) for _ in range(4)] + [rng.random() < 0.5],
                   b=[rng.randrange(0, 50), rng.randint(1, 12), rng.randint(1, 12), rng.randint(1, 11)] + [rng.randint(1, 99) for _ in range(4)] + [rng.random() < 0.5],
                   perturb=rng.randrange(9))


def argv_of(v):
    seed, w, l, m, rb, lb, tb, lt, fd = v
    a = [f'--seed={seed}', f'--width={w}', f'--length={l}', f'--max_reward={m}', f'--prob_robot_break={rb / 100}', f'--prob_light_break={lb / 100}',
         f'--prob_tile_break={tb / 100}', f'--prob_loose_tile={lt / 100}']
    return a + (['--force_down'] if fd else [])


def expected_name(v):
    seed, w, l, m, rb, lb, tb, lt, fd = v
    return f"inputs/robot_{seed}_w{w}_l{l}_r{m}_rb{rb}_lb{lb}_tb{tb}_lt{lt}{'_force_down' if fd else ''}.py"


def check_names(inp, mods, rng=None):
    rg = mods['roberta_generator']
    F = []
    ic = Intercept(rg)

    def name_of(v):
        rec = ic.run(argv_of(v))
        if rec['written'] is None:
            return None, rec['error']
        return rec['written'][0], None
    if inp['kind'] == 'sweep':
        idx = {'pr': 4, 'pl': 5, 'pb': 6, 'pt': 7}[inp['field']]
        seen = {}
        for k in range(1, 100):
            v = [3, 2, 2, 6, 10, 10, 10, 30, inp['fd']]
            v[idx] = k
            nm, err = name_of(v)
            if nm is None:
                F.append(({'C17', 'C11'}, 'name-generated', f'no file name for {v}: {err}'))
                break
            if nm != expected_name(v):
                F.append(({'C17'}, 'name-states-parameters', f'parameters {v} (percent {k} in {inp["field"]}) are named {nm!r}, expected {expected_name(v)!r}'))
                break
            if nm in seen:
                F.append(({'C17'}, 'name-injective', f'{v} and {seen[nm]} share the file {nm!r}'))
                break
            seen[nm] = v
        try:
            for k in range(1, 100):
                if rg.prob_to_str(k / 100) != str(k):
                    F.append(({'C17'}, 'percent-k', f'prob_to_str({k / 100!r}) = {rg.prob_to_str(k / 100)!r}, expected {str(k)!r}'))
                    break
        except BaseException as e:   # noqa
            F.append(({'C17'}, 'percent-k', f'prob_to_str raised {type(e).__name__}: {e}'))
        return F
    a, b = list(inp['a']), list(inp['b'])
    if inp['perturb'] < 9 and rng is not None:
        b = list(a)
        j = inp['perturb']
        b[j] = (not a[j]) if j == 8 else (a[j] % 11 + 1 if j != 0 else a[j] + 1)
    na, ea = name_of(a)
    nb, eb = name_of(b)
    for v, nm, er in ((a, na, ea), (b, nb, eb)):
        if nm is None:
            F.append(({'C17', 'C11'}, 'name-generated', f'no file name for {v}: {er}'))
        elif nm != expected_name(v):
            F.append(({'C17'}, 'name-states-parameters', f'parameters {v} are named {nm!r}, expected {expected_name(v)!r}'))
    if na is not None and na == nb and a != b:
        F.append(({'C17'}, 'name-injective', f'{a} and {b} share the file {na!r}'))
    return F

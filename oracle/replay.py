#!/venv/bin/python
"""Replay one replay file against the real code: exit 1 if the recorded clause fails again, 0 otherwise."""
import ast
import json
import os
import random
import sys
HERE = os.path.dirname(os.path.abspath(__file__))
sys.path.insert(0, HERE)
import lib   # noqa: E402


def main():
    path = sys.argv[1]
    repo = sys.argv[2] if len(sys.argv) > 2 else os.environ.get('PYVC_REPO', '/repo')
    r = json.load(open(path))
    if r.get('kind') != 'replayed-input':
        print(f"{path}: records the failed obligation {r.get('obligation')} (no failing input was found); nothing to execute")
        print(json.dumps(r, indent=1)[:2000])
        sys.exit(1)
    import suites
    mods = lib.load_repo(repo)
    try:
        fs = suites.CHECKERS[r['checker']](ast.literal_eval(r['input']), mods, random.Random(0))
    except BaseException as e:   # noqa
        if r['clause'] == 'unexpected-exception':
            print(f"REPRODUCED {r['property']} unexpected-exception: the real code raised {type(e).__name__}: {e}")
            sys.exit(1)
        raise
    hit = [f for f in fs if f[1] == r['clause']]
    if hit:
        print(f"REPRODUCED {r['property']} {r['clause']}: {hit[0][2]}")
        sys.exit(1)
    print(f"not reproduced: {r['property']} {r['clause']} holds on this input now")
    sys.exit(0)


if __name__ == '__main__':
    main()

"""Executable contracts of the board games (C08, C11): the three generated games against the Roborta game the board
defines (written from the property statement over abstract states), compared by bisimulation from the initial state;
and the properness / loadability clauses of C11 on the file that is actually written."""
import builtins
import io
import itertools
import os
from lib import P1, P2, PR


class MemFS:
    """intercepts open() for writing/reading of generated files: nothing touches the disk"""

    def __init__(s):
        s.files = {}
        s.orig = builtins.open

    def __enter__(s):
        fs = s

        class W(io.StringIO):
            def __init__(w, name):
                super().__init__()
                w.name_ = name

            def close(w):
                fs.files[w.name_] = w.getvalue()
                super().close()

        def fake(*args, **k):   # signature-transparent: open(file, mode) with either argument positional or by keyword
            args = list(args)
            name = args.pop(0) if args else k.pop('file')
            mode = args.pop(0) if args else k.pop('mode', 'r')
            a = args
            if isinstance(name, str) and ('w' in mode):
                return W(name)
            if isinstance(name, str) and name in fs.files:
                return io.StringIO(fs.files[name])
            return fs.orig(name, mode, *a, **k)
        builtins.open = fake
        return s

    def __exit__(s, *a):
        builtins.open = s.orig


def generate(mods, board, probs, via='write_robots'):
    """-> (games dict as loaded by the solver's reader, raw text)"""
    rg, cr = mods['roberta_generator'], mods['conditionalrewards']
    moves, rewards, loose = board
    ptile, probot, plight = probs
    with MemFS() as fs:
        rg.write_robots('inputs/_mem.py', len(moves), len(moves[0]), moves, rewards, loose, ptile, probot, plight)
        text = fs.files.get('inputs/_mem.py')
        games = cr.read_dict_from_file('inputs/_mem.py')
    return games, text


def generate_manual(mods, board, probs):
    """the second entry point: stochastic_game_from_roborta_board.create_sg_from_board(moves, rewards, loose, robot, light, tile)
    -> (file name, games dict as loaded by the solver's reader); exactly one file may be written"""
    sm, cr = mods['stochastic_game_from_roborta_board'], mods['conditionalrewards']
    moves, rewards, loose = board
    ptile, probot, plight = probs
    import copy
    with MemFS() as fs:
        sm.create_sg_from_board(copy.deepcopy(moves), copy.deepcopy(rewards), copy.deepcopy(loose), probot, plight, ptile)
        names = list(fs.files)
        if len(names) != 1:
            return names, None
        games = cr.read_dict_from_file(names[0])
    return names[0], games


def reference(board, probs, variant):
    """the Roborta game of the statement: dict state -> (owner, reward, [(label|prob, succ)]), initial, finals"""
    moves, rewards, loose = board
    ptile, probot, plight = probs
    Ln, W = len(moves), len(moves[0])
    G = {}
    WIN, LOSE = ('win',), ('lose',)
    G[WIN] = (PR, 0, [(1, WIN)])
    G[LOSE] = (PR, 0, [(1, LOSE)])
    left = lambda j: W - 1 if j == 0 else j - 1
    right = lambda j: 0 if j == W - 1 else j + 1
    for i in range(Ln):
        for j in range(W):
            m = moves[i][j]
            below = ('land', i + 1, j) if i < Ln - 1 else WIN
            # landing on a tile
            G[('land', i, j)] = (PR, 0, [(ptile, LOSE), (1 - ptile, ('light', i, j))] if loose[i][j] == 1 else [(1, ('light', i, j))])
            arrows = {0: ['Left'], 1: ['Left', 'Right'], 2: ['Right'], 3: []}[m]
            if variant == 'a':
                G[('light', i, j)] = (P2, rewards[i][j], [('Green', ('rd', i, j))] + ([('Yellow', ('rlr', i, j))] if m != 3 else []))
                G[('rd', i, j)] = (P1, 0, [('Down', below)])
                G[('rlr', i, j)] = (P1, 0, [(a, ('land', i, left(j) if a == 'Left' else right(j))) for a in arrows])
            else:
                tryd, tryl, tryr = ('tryd', i, j), ('tryl', i, j), ('tryr', i, j)
                G[tryd] = (PR, 0, [(probot, ('land', i, j)), (1 - probot, below)])
                G[tryl] = (PR, 0, [(probot, ('land', i, j)), (1 - probot, ('land', i, left(j)))])
                G[tryr] = (PR, 0, [(probot, ('land', i, j)), (1 - probot, ('land', i, right(j)))])
                G[('rd', i, j)] = (P1, 0, [('Down', tryd)])
                G[('rlr', i, j)] = (P1, 0, [(a, tryl if a == 'Left' else tryr) for a in arrows])
                if variant == 'b':
                    G[('light', i, j)] = (P2, rewards[i][j], [('Green', ('rd', i, j))] + ([('Yellow', ('rlr', i, j))] if m != 3 else []))
                else:
                    G[('free', i, j)] = (P1, 0, [('Down', tryd)] + [(a, tryl if a == 'Left' else tryr) for a in arrows])
                    G[('lg', i, j)] = (PR, 0, [(plight, ('free', i, j)), (1 - plight, ('rd', i, j))])
                    G[('ly', i, j)] = (PR, 0, [(plight, ('free', i, j)), (1 - plight, ('rlr', i, j))])
                    G[('light', i, j)] = (P2, rewards[i][j], [('Green', ('lg', i, j))] + ([('Yellow', ('ly', i, j))] if m != 3 else []))
    return G, ('light', 0, 0), {WIN}


def bisimilar(ref, ref_init, ref_fin, game):
    """partition refinement on the disjoint union, restricted to what is reachable from the two initial states"""
    players, tl, rewards, fin = game['players'], game['transition_list'], game['rewards'], set(game['final_states'])
    nodes = {}

    def reach(start, succ):
        seen, todo = {start}, [start]
        while todo:
            u = todo.pop()
            for _, v in succ(u):
                if v not in seen:
                    seen.add(v)
                    todo.append(v)
        return seen
    for s in reach(ref_init, lambda u: ref[u][2]):
        nodes[('R', s)] = (ref[s][0], ref[s][1], s in ref_fin, [(x, ('R', v)) for x, v in ref[s][2]])
    try:
        for s in reach(0, lambda u: tl[u]):
            nodes[('G', s)] = (players[s], rewards[s], s in fin, [(x, ('G', v)) for x, v in tl[s]])
    except (IndexError, TypeError) as e:
        return False, f'generated game is not traversable: {e}'
    def relabel(d):
        ids = {}
        return {n: ids.setdefault(v, len(ids)) for n, v in sorted(d.items(), key=lambda kv: repr(kv[0]))}
    block = relabel({n: (v[0], round(float(v[1]), 9), v[2]) for n, v in nodes.items()})
    for _ in range(len(nodes) + 2):
        sig = {}
        for n, (ow, rw, fn, succ) in nodes.items():
            if ow == PR:
                agg = {}
                for p, v in succ:
                    agg[block[v]] = agg.get(block[v], 0) + p
                s2 = tuple(sorted((b, round(p, 9)) for b, p in agg.items()))
            else:
                s2 = tuple(sorted({(a, block[v]) for a, v in succ}))
            sig[n] = (block[n], s2)
        new = relabel(sig)
        if len(set(new.values())) == len(set(block.values())):
            break
        block = new
    if block[('R', ref_init)] != block[('G', 0)]:
        # explain: first differing level
        return False, f"initial states are not bisimilar (reference {nodes[('R', ref_init)][:3]} / generated {nodes[('G', 0)][:3]})"
    return True, ''


def gen_boards(rng, tier):
    # force-down boards with a trap: a '->' tile directly left of a '<-' tile (the light can keep the robot bouncing between them for ever),
    # zero reward on the trap so that the solver converges; the start tile can still win
    for mv, rw, lo in (([[3, 2, 0], [3, 1, 1]], [[1, 0, 0], [2, 0, 0]], [[0, 0, 0], [1, 0, 0]]),
                       ([[3, 2, 0]], [[1, 0, 0]], [[0, 0, 0]]),
                       ([[2, 0, 3], [1, 3, 1]], [[0, 0, 2], [0, 1, 0]], [[0, 0, 0], [0, 1, 0]])):
        yield dict(board=(mv, rw, lo), probs=(0.1, 0.1, 0.1))
        yield dict(board=(mv, rw, lo), probs=(0.25, 0.2, 0.4))
    shapes_ex = dict(quick=[(1, 1), (1, 2), (2, 1)], thorough=[(1, 1), (1, 2), (2, 1), (1, 3), (3, 1)])[tier]
    for (L, W) in shapes_ex:
        n = L * W
        for mv in itertools.product(range(4), repeat=n):
            for lo in itertools.product(range(2), repeat=n):
                rw = [(k + 1) % 2 for k in range(n)]
                to = lambda xs: [list(xs[r * W:(r + 1) * W]) for r in range(L)]
                yield dict(board=(to(mv), to(rw), to(lo)), probs=(0.1, 0.2, 0.3))
    # the fair-coin corner: with every probability exactly 0.5 the two branches (p, s) and (1 - p, s') of a probabilistic state are
    # EQUAL tuples whenever s == s' (width 1: 'stay' and 'move with wrap-around' are the same tile) -- anything that treats
    # transitions as a set loses mass exactly there
    for (L, W) in [(1, 1), (2, 1), (1, 2)]:
        n = L * W
        for mv in itertools.product(range(4), repeat=n):
            for lo in itertools.product(range(2), repeat=n):
                to = lambda xs: [list(xs[r * W:(r + 1) * W]) for r in range(L)]
                yield dict(board=(to(mv), to([(k + 1) % 2 for k in range(n)]), to(lo)), probs=(0.5, 0.5, 0.5))
    # boards large enough for state numbers and offsets beyond 256 (CPython's cached small integers: identity and equality of
    # int objects differ there), beyond 1000, and with single rows/columns
    for (L, W) in dict(quick=[(9, 10), (1, 90)], thorough=[(9, 10), (10, 9), (1, 90), (90, 1), (18, 20), (30, 12)])[tier]:
        fd = (L * W) % 2 == 0
        mv = [[rng.choice([0, 1, 2, 3] if fd else [0, 1, 2]) for _ in range(W)] for _ in range(L)]
        rw = [[rng.randint(0, 6) for _ in range(W)] for _ in range(L)]
        lo = [[rng.randint(0, 1) for _ in range(W)] for _ in range(L)]
        yield dict(board=(mv, rw, lo), probs=(0.1, 0.25, 0.5))
    # one very long, narrow board (a corridor of 400 rows; all arrows down-only in the second variant so that the game is solvable)
    for dn in (False, True):
        L, W = 400, 1
        mv = [[3 if dn else rng.choice([0, 1, 2])] for _ in range(L)]
        yield dict(board=(mv, [[rng.randint(0, 3)] for _ in range(L)], [[1 if r % 50 == 7 else 0] for r in range(L)]), probs=(0.1, 0.25, 0.5))
    n_rand = dict(quick=120, thorough=3000)[tier]
    for i in range(n_rand):
        L, W = rng.choice([(2, 2), (1, 4), (4, 1), (2, 3), (3, 2), (3, 3), (1, 5), (5, 1), (2, 4), (4, 4), (1, 1), (3, 1)])
        fd = rng.random() < 0.6
        mv = [[rng.choice([0, 1, 2, 3] if fd else [0, 1, 2]) for _ in range(W)] for _ in range(L)]
        rw = [[rng.randint(0, 6) for _ in range(W)] for _ in range(L)]
        lo = [[rng.randint(0, 1) for _ in range(W)] for _ in range(L)]
        yield dict(board=(mv, rw, lo), probs=(rng.choice([0.1, 0.125, 0.3, 0.996, 0.004, 1 / 3, 0.12345, 0.99999, 0.5]), rng.choice([0.1, 0.25, 0.01, 1 / 3, 0.12345, 1e-05, 0.99999, 0.5]), rng.choice([0.1, 0.5, 0.05, 2 / 3, 0.54321, 1e-05])))


_SOLVE_BUDGET = [25.0]      # seconds per oracle process spent on solving generated games (many of them do not converge: F-DIVERGE)


def check_board(inp, mods, rng=None):
    F = []
    board, probs = inp['board'], inp['probs']
    try:
        games, text = generate(mods, board, probs)
    except BaseException as e:   # noqa
        return [({'C08', 'C11'}, 'file-loadable', f'writing/reading the file failed with {type(e).__name__}: {str(e)[:200]}')]
    if not isinstance(games, dict) or list(games.keys()) != ['game_a', 'game_b', 'game_c']:
        return [({'C11', 'C08'}, 'three-games', f'the file holds {list(games.keys()) if isinstance(games, dict) else type(games).__name__}, expected game_a, game_b, game_c')]
    # ---- the hand-made-board entry point emits the same three games (same writers, same board, probabilities in the right places)
    if 'stochastic_game_from_roborta_board' in mods and len(board[0]) * len(board[0][0]) <= 12:
        try:
            mname, mgames = generate_manual(mods, board, probs)
            if mgames is None:
                F.append(({'C08', 'C11'}, 'manual-entry-one-file', f'create_sg_from_board wrote {mname!r} (expected exactly one file) for board {board!r}'))
            elif mgames != games:
                diff = [k for k in ('game_a', 'game_b', 'game_c') if not isinstance(mgames, dict) or mgames.get(k) != games.get(k)]
                F.append(({'C08', 'C11'}, 'manual-entry-same-games', f'create_sg_from_board({board!r}, robot={probs[1]}, light={probs[2]}, tile={probs[0]}) emits different {diff} '
                          f'than write_robots on the same board and probabilities (file {mname!r})'))
        except BaseException as e:   # noqa
            F.append(({'C08', 'C11'}, 'manual-entry-runs', f'create_sg_from_board failed with {type(e).__name__}: {str(e)[:200]} for board {board!r}'))
    tad = mods['tad']
    for v in 'abc':
        g = games['game_' + v]
        tag = f'[game_{v}] '
        # ---- C08: bisimilar to the Roborta game of the board
        ref, init, fin = reference(board, probs, v)
        try:
            ok, why = bisimilar(ref, init, fin, g)
        except BaseException as e:   # noqa
            ok, why = False, f'comparison failed: {type(e).__name__}: {e}'
        if not ok:
            F.append(({'C08'}, 'bisimilar-to-roborta-game', tag + why + f' for board {board!r}'))
        # ---- C11: proper, validated game
        try:
            sg = tad.StochasticGame(**g)
            sg.check_game()
            sg.init_states()
        except BaseException as e:   # noqa
            F.append(({'C11'}, 'passes-validation', tag + f'validation raised {type(e).__name__}: {e}'))
            continue
        n = len(g['players'])
        tl = g['transition_list']
        for s in range(n):
            if not tl[s]:
                F.append(({'C11'}, 'every-state-has-a-transition', tag + f'state {s} has none'))
            if g['players'][s] == PR:
                ps = [p for p, _ in tl[s]]
                if any(not (p > 0) for p in ps) or abs(sum(ps) - 1) > 1e-9:
                    F.append(({'C11'}, 'probabilities-positive-sum-1', tag + f'state {s}: {tl[s]!r}'))
                    break
        fs = g['final_states']
        if len(fs) != 1 or tl[fs[0]] != [(1, fs[0])]:
            F.append(({'C11'}, 'single-absorbing-final', tag + f'final states {fs!r} with transitions {[tl[f] for f in fs]!r}'))
        lose = n - 2
        if tl[lose] != [(1, lose)] or lose in fs:
            F.append(({'C11'}, 'absorbing-loser', tag + f'state {lose}: {tl[lose]!r}'))
        # "each game is then either solved or reported as having no solution": on small boards the real solver is run under a time limit;
        # a game it does not finish in time is NOT judged here (the generated games need not be stopping: recorded finding F-DIVERGE), any
        # outcome other than a result or a ValueError is a failure
        if n <= 120 and not F and _SOLVE_BUDGET[0] > 0 and os.environ.get('ORACLE_PROP', 'C11') == 'C11':
            import copy as _copy
            import time as _time
            import solver_checks as _SC
            for prune in (True, False):
                t0_ = _time.time()
                try:
                    _SC.timed(lambda: tad.StochasticGame(**_copy.deepcopy(g), prune_states=prune).solve(), 1)
                except (ValueError, _SC.Timeout):
                    pass
                except BaseException as e:   # noqa
                    F.append(({'C11', 'C06'}, 'solved-or-refused', tag + f'solve(prune={prune}) of the generated game ended with {type(e).__name__}: {e}; board {board!r}'))
                    break
                finally:
                    _SOLVE_BUDGET[0] -= _time.time() - t0_
        # very long boards: the search phases must cope with paths thousands of states deep; the outcome of the solve is judged only
        # if it ends within the limit (a result or the 'no solution' ValueError are both fine; any other exception is a failure)
        if len(board[0]) * len(board[0][0]) >= 300 and v in 'ab' and not F and os.environ.get('ORACLE_PROP', 'C11') == 'C11':
            import copy as _copy
            import solver_checks as _SC
            try:
                _SC.timed(lambda: tad.StochasticGame(**_copy.deepcopy(g), prune_states=True).solve(), 3)
            except (ValueError, _SC.Timeout):
                pass
            except BaseException as e:   # noqa
                F.append(({'C11', 'C06'}, 'solved-or-refused', tag + f'solve(prune=True) of the generated game of a {len(board[0])}x{len(board[0][0])} board ended with {type(e).__name__}: {str(e)[:120]}'))
    return F[:4]

"""Executable contracts of conditionalrewards.py: batch isolation (C12) and the saved report (C16), plus the dedicated
replayers of the recorded known findings."""
import ast
import copy
import logging
import random
import lib
from lib import P1, P2, PR, FIG55, mk_game
from board_checks import MemFS
import solver_checks as SC

GOOD = [FIG55,
        mk_game([P1, PR, PR, PR], [[("l", 1), ("r", 2)], [(0.5, 2), (0.5, 3)], [(1, 2)], [(1, 3)]], [1, 2, 0, 0], [2]),
        mk_game([P2, PR, PR, PR, PR], [[("x", 1), ("y", 2)], [(0.25, 3), (0.75, 4)], [(0.5, 3), (0.5, 4)], [(1, 3)], [(1, 4)]], [0, 1, 5, 0, 0], [3]),
        mk_game([PR, P1, PR, PR, PR, PR], [[(0.5, 1), (0.5, 5)], [("a", 2), ("b", 3)], [(1, 4)], [(0.5, 4), (0.5, 5)], [(1, 4)], [(1, 5)]], [1, 0, 3, 1, 0, 0], [4]),
        mk_game([PR, P1, PR, PR, PR, PR], [[(0.5, 1), (0.5, 5)], [("a", 2), ("b", 3)], [(1, 4)], [(0.5, 4), (0.5, 5)], [(1, 4)], [(1, 5)]], [1, 0, 3, 1, 0, 0], [5])]
# states nobody leads to (a chance state, a Player 2 state) although every state reaches the target: pruning empties them, not pruning keeps them
GOOD += [mk_game([P1, PR, PR, PR], [[("go", 1)], [(1, 2)], [(1, 2)], [(1, 2)]], [1, 2, 0, 5], [2]),
         mk_game([P1, PR, PR, PR, P2], [[("l", 1), ("r", 2)], [(0.5, 1), (0.5, 3)], [(1, 3)], [(1, 3)], [("x", 1), ("y", 2)]], [0, 3, 1, 0, 4], [3])]
BAD = [mk_game([PR, PR, PR], [[(1, 1)], [(1, 2)], [(1, 2)]], [0, -1, 0], [2]),                       # malformed
       mk_game([P2, PR, PR], [[("a", 1), ("b", 2)], [(1, 1)], [(1, 2)]], [0, 0, 0], [2]),            # no solution: Player 2 forces away
       mk_game([PR, PR, PR], [[(1, 1)], [(1, 1)], [(1, 2)]], [0, 0, 0], [2]),                        # no solution: cannot reach
       dict(rewards=[0, 0, 0], players=[PR, PR, PR], transition_list=[None, [(1, 2)], [(1, 2)]], final_states=[2])]      # state without transitions


# no final state at all / no state at all: refused through the ValueError that max()/min() of an empty sequence raise inside the
# validation (not one of the explicitly raised ones)
BAD += [mk_game([PR, PR], [[(1, 1)], [(1, 1)]], [0, 0], []),
        mk_game([], [], [], []),
        # a state whose transitions are a TRUTHY non-list (a number, a string): counted as nothing, refused by the validation
        dict(rewards=[0, 0, 0], players=[PR, PR, PR], transition_list=[5, [(1, 2)], [(1, 2)]], final_states=[2]),
        dict(rewards=[0, 0, 0], players=[PR, PR, PR], transition_list=[[(1, 1)], "ab", [(1, 2)]], final_states=[2])]
# regrouped twins: the same (label, successor) pairs in the same order, the same size, rewards, owners and finals -- only the state a
# pair belongs to differs, and with it the set of states that can reach the goal (anything keyed on a flattened description confuses them)
TWINS = [mk_game([P1, P1, P1, PR, PR], [[("a", 1), ("b", 2)], [("c", 3)], [("d", 4)], [(1, 3)], [(1, 4)]], [1, 1, 1, 0, 0], [4]),
         mk_game([P1, P1, P1, PR, PR], [[("a", 1)], [("b", 2), ("c", 3)], [("d", 4)], [(1, 3)], [(1, 4)]], [1, 1, 1, 0, 0], [4]),
         mk_game([P1, P1, P1, PR, PR], [[("a", 1)], [("b", 2)], [("c", 3), ("d", 4)], [(1, 3)], [(1, 4)]], [1, 1, 1, 0, 0], [4])]


def gen_batches(rng, tier):
    n = dict(quick=40, thorough=800)[tier]
    yield dict(names=['t0', 't1'], games=[TWINS[0], TWINS[1]])
    yield dict(names=['t1', 't0'], games=[TWINS[1], TWINS[0]])
    yield dict(names=['t2', 't1', 't0'], games=[TWINS[2], TWINS[1], TWINS[0]])
    yield dict(names=['nofinal', 'good1'], games=[BAD[4], GOOD[1]])
    yield dict(names=['good1', 'number', 'text', 'good2'], games=[GOOD[1], BAD[6], BAD[7], GOOD[2]])
    yield dict(names=['good2', 'empty', 'good1', 'nofinal'], games=[GOOD[2], BAD[5], GOOD[1], BAD[4]])
    yield dict(names=['g0'], games=[GOOD[0]])
    yield dict(names=['a', 'b'], games=[GOOD[3], GOOD[4]])              # same board, different goals
    yield dict(names=['b', 'a'], games=[GOOD[4], GOOD[3]])
    yield dict(names=['bad', 'good1', 'good2'], games=[BAD[0], GOOD[1], GOOD[2]])
    yield dict(names=['good1', 'bad', 'good2'], games=[GOOD[1], BAD[1], GOOD[2]])
    yield dict(names=['good1', 'good2', 'bad'], games=[GOOD[1], GOOD[2], BAD[2]])
    yield dict(names=['n1', 'n2', 'n3', 'n4'], games=[BAD[3], BAD[1], GOOD[0], BAD[0]])
    yield dict(names=['spare', 'spare_p2'], games=[GOOD[5], GOOD[6]])
    yield dict(names=['spare_p2', 'nosol', 'g55'], games=[GOOD[6], BAD[2], GOOD[0]])
    for i in range(n):
        k = rng.randint(1, 5)
        gs = [copy.deepcopy(rng.choice(GOOD + BAD + [lib.random_game(rng, rng.randint(3, 5))])) for _ in range(k)]
        names = [f'game_{rng.choice("abcxyz")}{j}_{rng.randint(0, 99)}' for j in range(k)]
        yield dict(names=names, games=gs)


def quiet(fn):
    lvl = logging.getLogger().level
    logging.getLogger().setLevel(logging.CRITICAL + 1)
    try:
        return fn()
    finally:
        logging.getLogger().setLevel(lvl)


def solo(tad, g, prune):
    try:
        sg = tad.StochasticGame(**copy.deepcopy(g), prune_states=prune)
        nt = sum(len(x) for x in g['transition_list'] if isinstance(x, list))
        r = SC.timed(lambda: sg.solve(), 10)
        return ('ok', r, len(g['players']), nt)
    except ValueError as e:
        return ('err', str(e), len(g['players']), sum(len(x) for x in g['transition_list'] if isinstance(x, list)))


FIELDS = ['final_strategies', 'reachability_strategies', 'rewards', 'probabilities', 'n_iterations_reach', 'n_iterations_rew', 'prob_min_rew', 'rew_min_reach']


def check_batch(inp, mods, rng=None):
    mods = lib.load_repo()          # a fresh process image for every batch: state left by earlier batches must not mask anything
    tad, cr = mods['tad'], mods['conditionalrewards']
    F = []
    names, games = inp['names'], inp['games']
    d = {n: copy.deepcopy(g) for n, g in zip(names, games)}
    try:
        res = quiet(lambda: SC.timed(lambda: cr.run_games(d), 30))
    except BaseException as e:   # noqa
        return [({'C12', 'C09'}, 'batch-does-not-crash', f'run_games raised {type(e).__name__}: {e} on names {names}')]
    want_keys = [k for n in names for k in (n, n + '_no_prune')]
    if list(res.keys()) != want_keys:
        F.append(({'C12'}, 'two-entries-per-game', f'result keys {list(res.keys())}, expected {want_keys}'))
        return F
    for n, g in zip(names, games):
        fresh_tad = lib.load_repo()['tad']       # freshly imported modules: "solving that game alone" must not see state left by the batch
        sp, su = solo(fresh_tad, g, True), solo(fresh_tad, g, False)
        ep, eu = res[n], res[n + '_no_prune']
        if sp[0] == 'ok':
            for mode, e_, s_ in (('pruned', ep, sp), ('unpruned', eu, su)):
                if s_[0] != 'ok':
                    continue
                if e_['msg'] != 'Game solved':
                    F.append(({'C12'}, 'solved-entry', f'game {n!r} ({mode}) solves alone but its entry says {e_["msg"]!r}; batch order {names}'))
                    continue
                for fld, v in zip(FIELDS, s_[1]):
                    if e_[fld] != v:
                        F.append(({'C12'}, 'entry-equals-solo-result', f'game {n!r} ({mode}): {fld} = {e_[fld]!r} in the batch {names}, {v!r} when solved alone'))
                        break
                if e_['n_states'] != s_[2] or e_['n_transitions'] != s_[3]:
                    F.append(({'C12'}, 'entry-counts', f'game {n!r} ({mode}): counts {e_["n_states"]}/{e_["n_transitions"]}, expected {s_[2]}/{s_[3]}'))
        else:
            if ep['msg'] != 'Error while solving the game: ' + sp[1]:
                F.append(({'C12', 'C09'}, 'failure-entry-carries-message', f'game {n!r}: entry message {ep["msg"]!r}, solving alone fails with {sp[1]!r}'))
            if eu['msg'] != 'Game not solved':
                F.append(({'C12'}, 'unpruned-marked-not-solved', f'game {n!r}: unpruned entry says {eu["msg"]!r}'))
            for e_ in (ep, eu):
                if any(e_[f] is not None for f in FIELDS[:4]):
                    F.append(({'C12'}, 'failure-entry-empty', f'game {n!r}: a failed entry carries results'))
    if d != {n: dict(copy.deepcopy(g), prune_states=False) for n, g in zip(names, games)}:
        bad = [n for n, g in zip(names, games) if {k: v for k, v in d[n].items() if k != 'prune_states'} != g]
        if bad:
            F.append(({'C12', 'C10'}, 'descriptions-intact', f'run_games changed the descriptions of {bad}'))
    return F[:4]


LINES = [('Running example         : ', None), ('Message                 : ', 'msg'), ('number of states        : ', 'n_states'), ('number of transitions   : ', 'n_transitions'),
         ('n iterations reach      : ', 'n_iterations_reach'), ('n iterations rew        : ', 'n_iterations_rew'), ('Reachability strategies : ', 'reachability_strategies'),
         ('Final strategies        : ', 'final_strategies'), ('Are equal               : ', '=='), ('Probabilities           : ', 'probabilities'),
         ('Probabilities min rew   : ', 'prob_min_rew'), ('Rewards                 : ', 'rewards'), ('Rewards min reach       : ', 'rew_min_reach'), ('Total time              : ', 'total_time')]


def synthetic_results():
    """result dictionaries save_results_to_file must report verbatim although run_games happens not to produce them today:
    empty lists, empty strategies inside a table, zeros, None, long vectors"""
    base = dict(n_states=0, n_transitions=0, n_iterations_reach=0, n_iterations_rew=0, reachability_strategies=None, final_strategies=None,
                total_time=0.0, msg='Game not solved', rewards=None, rew_min_reach=0, probabilities=None, prob_min_rew=0)
    yield {'empty': dict(base, reachability_strategies=[], final_strategies=[], rewards=[], probabilities=[], rew_min_reach=[], prob_min_rew=[], msg='Game solved')}
    yield {'half': dict(base, reachability_strategies=[], final_strategies=None), 'half_no_prune': dict(base, reachability_strategies=None, final_strategies=[])}
    yield {'tables': dict(base, n_states=3, reachability_strategies=[[], None, ['a']], final_strategies=[[], None, []], rewards=[0, 0.0, 1.5], probabilities=[0, 1, 0.5],
                          rew_min_reach=[0.0] * 3, prob_min_rew=[0] * 3, msg='Game solved', n_iterations_reach=1, n_iterations_rew=1, total_time=1e-09)}
    yield {'long': dict(base, n_states=400, rewards=[k / 7 for k in range(400)], probabilities=[1.0] * 400, rew_min_reach=[0.1] * 400, prob_min_rew=[1] * 400,
                        reachability_strategies=[None] * 400, final_strategies=[None] * 400, msg='Game solved')}
    yield {'zeros': dict(base, rewards=0, probabilities=0, total_time=0, msg='')}
    # strategy tables that differ as LISTS although every state offers the same SET of actions (a repeated action name, another order):
    # the equality flag is the comparison of the two lists that are printed above it
    yield {'dup': dict(base, n_states=3, reachability_strategies=[['a', 'a'], ['b', 'a'], None], final_strategies=[['a'], ['a', 'b'], None], rewards=[1, 2, 0], probabilities=[1, 1, 1],
                       rew_min_reach=[0.0] * 3, prob_min_rew=[1] * 3, msg='Game solved', n_iterations_reach=2, n_iterations_rew=2, total_time=0.5),
           'dup_no_prune': dict(base, n_states=1, reachability_strategies=[['x', 'y']], final_strategies=[['x', 'y']], rewards=[1], probabilities=[1],
                                rew_min_reach=[0.0], prob_min_rew=[1], msg='Game solved')}


def gen_reports(rng, tier):
    for r in synthetic_results():
        yield dict(results=r, file='inputs/synthetic_1.py')
    # paths with dots before the base name, and input files whose TEXT is an expression using builtins (it denotes the same dictionary)
    b0 = dict(names=['g_1', 'bad'], games=[GOOD[1], BAD[2]])
    for f in ('./inputs/x_1.py', '../x_2.py', 'runs.2024/inputs/my_games_3.py', 'inputs/v1.2/a.py', './a'):
        yield dict(batch=b0, file=f)
    yield dict(batch=b0, file='inputs/expr_1.py', text='dict({d})')
    yield dict(batch=b0, file='inputs/expr_2.py', text='{{k: v for k, v in list({d}.items())[:len({d})]}}')
    for b in gen_batches(rng, tier):
        yield dict(batch=b, file=rng.choice(['inputs/example_games.py', 'inputs/board_3_copy.py', 'x.py', 'inputs/robot_47_w5_l5_r6_rb10.py', 'some/dir/a_1.py', 'inputs/happy.py']))


def verify_report(files, in_file, res, how=''):
    """the report written for `res` (an ordered result dictionary) when the input file is `in_file`: named after the input, one block
    per entry in order, every line reads back to the entry's value"""
    F = []
    stem = in_file.split('/')[-1].split('.')[0]
    out = f'outputs/{stem}.txt'
    outs = [k for k in files if k != in_file]
    if outs != [out]:
        F.append(({'C16'}, 'report-named-after-input', how + f'report written to {outs}, expected [{out!r}] for input {in_file!r}'))
        return F
    blocks = files[out].split('=' * 160 + '\n')
    if blocks[0] != '' or len(blocks) - 1 != len(res):
        F.append(({'C16'}, 'one-block-per-entry', how + f'{len(blocks) - 1} blocks for {len(res)} entries'))
        return F
    for blk, (name, e) in zip(blocks[1:], res.items()):
        ls = blk.split('\n')
        if len(ls) != len(LINES) + 1 or ls[-1] != '':
            F.append(({'C16'}, 'block-lines', how + f'block of {name!r} has {len(ls) - 1} lines'))
            break
        for (label, fld), line in zip(LINES, ls):
            if not line.startswith(label):
                F.append(({'C16'}, 'line-label', how + f'block of {name!r}: line {line[:40]!r} should start with {label!r}'))
                break
            txt = line[len(label):]
            if fld is None:
                want, got = name, txt
            elif fld == 'msg':
                want, got = e['msg'], txt
            else:
                want = (e['reachability_strategies'] == e['final_strategies']) if fld == '==' else e[fld]
                try:
                    got = ast.literal_eval(txt)
                except Exception:
                    got = ('unparsable', txt)
            if got != want:
                F.append(({'C16'}, 'line-reads-back', how + f'block of {name!r}, line {label.strip()!r}: reads back {got!r}, the batch run produced {want!r}'))
                break
    return F


def run_main(cr, argv):
    """conditionalrewards.main() as the command line runs it; returns what run_games returned inside it"""
    import sys
    seen = {}
    orig = cr.run_games

    def spy(*a, **k):       # signature-transparent: the driver may pass the dictionary positionally or by keyword
        d = a[0] if a else next(iter(k.values()))
        seen['arg'] = copy.deepcopy(d)
        seen['res'] = orig(*a, **k)
        return seen['res']
    cr.run_games = spy
    old_argv = sys.argv
    sys.argv = ['conditionalrewards.py'] + argv
    try:
        quiet(lambda: SC.timed(cr.main, 30))
    finally:
        sys.argv = old_argv
        cr.run_games = orig
    return seen


def check_report(inp, mods, rng=None):
    mods = lib.load_repo()
    cr = mods['conditionalrewards']
    F = []
    if 'results' in inp:
        names, games = [], []
    else:
        names, games = inp['batch']['names'], inp['batch']['games']
    d = {n: copy.deepcopy(g) for n, g in zip(names, games)}
    # the input file is read into the games it textually denotes (and a second read gives the same)
    with MemFS() as fs:
        fs.files[inp['file']] = inp.get('text', '{d}').format(d=repr(d))
        try:
            r1 = cr.read_dict_from_file(inp['file'])
            res = copy.deepcopy(inp['results']) if 'results' in inp else quiet(lambda: SC.timed(lambda: cr.run_games(r1), 30))
            r2 = cr.read_dict_from_file(inp['file'])
            cr.save_results_to_file(res, inp['file'])
        except BaseException as e:   # noqa
            return [({'C16', 'C12'}, 'report-error', f'{type(e).__name__}: {e}')]
        files = dict(fs.files)
    if r2 != d:
        F.append(({'C16'}, 'input-read-as-written', f'reading {inp["file"]!r} again gives {str(r2)[:200]!r}..., the file denotes {str(d)[:200]!r}'))
    F += verify_report(files, inp['file'], res)
    if F or 'results' in inp:
        return F[:3]
    # the same through the command line: `-f X -s` saves the result of running what X denotes under X's name; without -s nothing is written
    for flags in (['-s'], []):
        with MemFS() as fs:
            fs.files[inp['file']] = inp.get('text', '{d}').format(d=repr(d))
            try:
                seen = run_main(cr, ['-f', inp['file']] + flags)
            except BaseException as e:   # noqa
                return [({'C16', 'C12'}, 'report-error', f'main(-f {inp["file"]} {flags}) ended with {type(e).__name__}: {e}')]
            files = dict(fs.files)
        how = f'[python conditionalrewards.py -f {inp["file"]} {" ".join(flags)}] '
        if seen.get('arg') != d:
            F.append(({'C16', 'C12'}, 'input-read-as-written', how + f'the batch was run on {str(seen.get("arg"))[:200]!r}, the file denotes {str(d)[:200]!r}'))
        elif flags:
            F += verify_report(files, inp['file'], seen['res'], how)
        elif [k for k in files if k != inp['file']]:
            F.append(({'C16'}, 'nothing-saved-without-flag', how + f'files written: {[k for k in files if k != inp["file"]]}'))
    return F[:3]


# ------------------------------------------------------------------ replayers of recorded findings (not part of the general search)
def check_accuracy(inp, mods, rng=None):
    tad = mods['tad']
    r = tad.StochasticGame(**copy.deepcopy(inp['game']), prune_states=False).solve()
    F = []
    for s, v in enumerate(inp['true']):
        if abs(r[3][s] - v) > 1e-3:
            F.append(({'C01', 'C02', 'C04', 'C05', 'C14'}, 'within-tolerance-of-true-value', f'state {s}: reported {r[3][s]!r}, true value {v!r}'))
    return F


def check_pair_solvable(inp, mods, rng=None):
    tad = mods['tad']
    out = []
    for g in (inp['a'], inp['b']):
        try:
            tad.StochasticGame(**copy.deepcopy(g), prune_states=True).solve()
            out.append('solved')
        except ValueError as e:
            out.append('refused')
    if out[0] != out[1]:
        return [({'C13', 'C06'}, 'solvability-independent-of-numbering', f'presentation a is {out[0]}, presentation b (same game, states renumbered) is {out[1]}')]
    return []


def check_true_ties(inp, mods, rng=None):
    tad = mods['tad']
    r = tad.StochasticGame(**copy.deepcopy(inp['game']), prune_states=False).solve()
    s = inp['state']
    if r[1][s] != inp['expected']:
        return [({'C04'}, 'true-ties-all-listed', f'state {s}: true successor values {inp["true_values"]} are equal, reported strategy {r[1][s]!r} (expected {inp["expected"]!r}); reported probabilities {r[3]!r}')]
    return []


def check_generated_solves(inp, mods, rng=None):
    import board_checks as BC
    rg, tad = mods['roberta_generator'], mods['tad']
    board = rg.gen_rnd_board(inp['seed'], inp['length'], inp['width'], inp['prob_loose_tile'], inp['max_reward'], inp['force_down'])
    games, _ = BC.generate(mods, board, (inp['prob_tile_break'], inp['prob_robot_break'], inp['prob_light_break']))
    F = []
    for k, g in games.items():
        try:
            SC.timed(lambda: tad.StochasticGame(**copy.deepcopy(g), prune_states=True).solve(), inp.get('limit', 10))
        except SC.Timeout:
            F.append(({'C11', 'C06'}, 'generated-game-solved-or-refused', f'{k} of the generated file is neither solved nor refused within {inp.get("limit", 10)} s (the reward iteration does not converge)'))
        except ValueError:
            pass
    return F

"""Executable contract of C09: every way of breaking a documented well-formedness rule, at every position, must make
solve raise ValueError (both modes), and the batch runner must record it as a message instead of crashing."""
import copy
import logging
from lib import P1, P2, PR, FIG55, mk_game


def timed(fn, secs=5):
    import solver_checks as SC
    return SC.timed(fn, secs)

BASES = [FIG55,
         mk_game([P1, P2, PR, PR], [[("a", 1), ("b", 2)], [("a", 2), ("b", 3)], [(0.5, 3), (0.5, 2)], [(1, 3)]], [1, 0, 2, 0], [3]),
         mk_game([PR, PR, PR], [[(1, 1)], [(1, 2)], [(1, 2)]], [0, 0, 0], [2])]


def breakages(g):
    n = len(g['players'])
    yield 'lengths-disagree', lambda h: h['rewards'].pop()
    yield 'lengths-disagree', lambda h: h['transition_list'].pop()
    yield 'lengths-disagree', lambda h: h['players'].pop()
    yield 'lengths-disagree', lambda h: h['rewards'].append(0)
    yield 'lengths-disagree', lambda h: h['transition_list'].append([(1, 0)])
    yield 'no-final-state', lambda h: h['final_states'].clear()
    for s in range(n):
        yield 'negative-reward', lambda h, s=s: h['rewards'].__setitem__(s, -1)
        yield 'negative-reward', lambda h, s=s: h['rewards'].__setitem__(s, -1e-9)
        yield 'unknown-player', lambda h, s=s: h['players'].__setitem__(s, "Player 3")
        yield 'unknown-player', lambda h, s=s: h['players'].__setitem__(s, "player 1")
        if s in (0, n - 1):
            # an unknown player need not be a string (nor hashable): None, a number, a list, a dict
            for badp in (None, 7, ["Player 1"], {"Player 1": 1}):
                yield 'unknown-player', lambda h, s=s, badp=badp: h['players'].__setitem__(s, badp)
        for bad in (None, [], 5, "ab", (("a", 0),), {0: 1}):
            yield 'state-without-transitions-or-not-a-list', lambda h, s=s, bad=bad: h['transition_list'].__setitem__(s, bad)
        for k in range(len(g['transition_list'][s])):
            x, t = g['transition_list'][s][k]
            for bad in ([x, t], (x,), (x, t, 0), (), x, None):
                yield 'not-a-2-tuple', lambda h, s=s, k=k, bad=bad: h['transition_list'][s].__setitem__(k, bad)
            for bt in (n, -1, n + 5, -n, 1.0, "1", None, 0.5):
                yield 'successor-index', lambda h, s=s, k=k, bt=bt, x=x: h['transition_list'][s].__setitem__(k, (x, bt))
            if g['players'][s] == PR:
                for bx in ("0.5", None, (0.5,), [0.5]):
                    yield 'non-numeric-probability', lambda h, s=s, k=k, bx=bx, t=t: h['transition_list'][s].__setitem__(k, (bx, t))
            else:
                for bx in (1, 0.5, None, ("a",)):
                    yield 'non-string-action', lambda h, s=s, k=k, bx=bx, t=t: h['transition_list'][s].__setitem__(k, (bx, t))
    for bf in (n, -1, n + 3):
        yield 'final-index', lambda h, bf=bf: h['final_states'].append(bf)
        yield 'final-index', lambda h, bf=bf: h['final_states'].insert(0, bf)


def gen_malformed(rng, tier):
    for bi, base in enumerate(BASES):
        items = list(breakages(base))
        if tier == 'quick':
            items = items[::2] if bi == 0 else items
        for rule, fn in items:
            h = copy.deepcopy(base)
            fn(h)
            yield dict(rule=rule, game=h, base=base)


def check_malformed(inp, mods, rng=None):
    tad, cr = mods['tad'], mods['conditionalrewards']
    F = []
    g = inp['game']
    for prune in (True, False):
        try:
            sg = tad.StochasticGame(**copy.deepcopy(g), prune_states=prune)
            r = timed(sg.solve)
            F.append(({'C09'}, 'rejected-with-valueerror', f'[{inp["rule"]}, prune={prune}] solve returned a result for the malformed game {g!r}'))
        except ValueError:
            pass
        except BaseException as e:   # noqa
            F.append(({'C09', 'C06'}, 'rejected-with-valueerror', f'[{inp["rule"]}, prune={prune}] solve raised {type(e).__name__}: {e} (not ValueError) for {g!r}'))
    # the same for a description that BECOMES malformed after it was solved: the object and the lists are the ones already
    # solved once; the caller then edits its own lists in place (they are aliased by the object) and solves again
    if inp.get('base') is not None:
        for prune in (True, False):
            w = copy.deepcopy(inp['base'])
            try:
                sg = tad.StochasticGame(**w, prune_states=prune)
                timed(sg.solve)
            except ValueError:
                pass
            except BaseException as e:   # noqa
                F.append(({'C09', 'C06'}, 'rejected-with-valueerror', f'[{inp["rule"]}, prune={prune}] the well-formed base game raised {type(e).__name__}: {e}'))
                continue
            for key in ('rewards', 'players', 'transition_list', 'final_states'):
                new = copy.deepcopy(g[key])
                if key == 'transition_list':
                    for s_ in range(min(len(new), len(w[key]))):
                        if isinstance(new[s_], list) and isinstance(w[key][s_], list):
                            w[key][s_][:] = new[s_]
                            new[s_] = w[key][s_]
                w[key][:] = new
            for how, mk in (('the same object', lambda: sg), ('a new object on the same lists', lambda: tad.StochasticGame(**w, prune_states=prune))):
                try:
                    timed(mk().solve)
                    F.append(({'C09'}, 'rejected-with-valueerror', f'[{inp["rule"]}, prune={prune}] after a successful solve the caller\'s lists were edited in place to the malformed {g!r}: solving {how} again returned a result'))
                except ValueError:
                    pass
                except BaseException as e:   # noqa
                    F.append(({'C09', 'C06'}, 'rejected-with-valueerror', f'[{inp["rule"]}, prune={prune}] after a successful solve the caller\'s lists were edited in place to the malformed {g!r}: solving {how} again raised {type(e).__name__}: {e} (not ValueError)'))
    lvl = logging.getLogger().level
    logging.getLogger().setLevel(logging.CRITICAL + 1)
    try:
        ok = dict(players=[PR, PR], rewards=[0, 0], transition_list=[[(1, 1)], [(1, 1)]], final_states=[1])
        res = cr.run_games({'bad': copy.deepcopy(g), 'good': ok})
        if not res['bad']['msg'].startswith('Error while solving the game'):
            F.append(({'C09', 'C12'}, 'batch-records-message', f'[{inp["rule"]}] batch entry message is {res["bad"]["msg"]!r} for the malformed game {g!r}'))
        if res['bad_no_prune']['msg'] != 'Game not solved' or res['good']['msg'] != 'Game solved':
            F.append(({'C09', 'C12'}, 'batch-continues', f'[{inp["rule"]}] messages: {[(k, v["msg"]) for k, v in res.items()]}'))
        # "returns no result": also when the malformed game comes AFTER a solved one, its entries carry a message and nothing else
        res2 = cr.run_games({'good': copy.deepcopy(ok), 'bad': copy.deepcopy(g)})
        for key in ('bad', 'bad_no_prune'):
            e_ = res2[key]
            carried = {f: e_[f] for f in ('reachability_strategies', 'final_strategies', 'rewards', 'probabilities') if e_[f] is not None}
            if carried or e_['msg'] == 'Game solved':
                F.append(({'C09', 'C12'}, 'failure-entry-empty', f'[{inp["rule"]}] after a solved game, the entry {key!r} of the malformed game says {e_["msg"]!r} and carries results {carried!r}'))
                break
    except BaseException as e:   # noqa
        F.append(({'C09', 'C12'}, 'batch-does-not-crash', f'[{inp["rule"]}] run_games raised {type(e).__name__}: {e} for {g!r}'))
    finally:
        logging.getLogger().setLevel(lvl)
    return F

"""Executable reading of the contracts: reference definitions (written from the property statements) and
small-scope input generators. Runs under /venv/bin/python against the real modules of the repository.
Everything here is a *bounded* stand-in / replay harness; nothing it does is counted as proved."""
import copy
import importlib
import itertools
import math
import os
import random
import sys

P1, P2, PR = "Player 1", "Player 2", "Probabilistic"
THRESH = 1e-6
EPS = 1e-9


REPO = None


def load_repo(repo=None):
    global REPO
    repo = repo or REPO
    REPO = repo
    if repo not in sys.path:
        sys.path.insert(0, repo)
    mods = {}
    for m in ('reverse_dfs', 'tad', 'conditionalrewards', 'roberta_generator', 'stochastic_game_from_roborta_board'):
        if m in sys.modules:
            del sys.modules[m]
    for m in ('reverse_dfs', 'tad', 'conditionalrewards', 'roberta_generator', 'stochastic_game_from_roborta_board'):
        try:
            mods[m] = importlib.import_module(m)
        except Exception as e:      # a module that no longer imports is reported by the checks that need it
            mods[m] = e
    return mods


# ------------------------------------------------------------------ games
PROBS = [[1.0], [0.5, 0.5], [0.25, 0.75], [0.75, 0.25], [0.25, 0.25, 0.5], [0.5, 0.25, 0.25], [0.25, 0.5, 0.25],
         [0.125, 0.875], [0.25, 0.25, 0.25, 0.25], [1 / 3, 1 / 3, 1 / 3], [0.1, 0.9], [0.2, 0.3, 0.5]]
LABELS = ['a', 'b', 'c', 'd', 'e']


def mk_game(players, tl, rewards, finals):
    return dict(rewards=list(rewards), players=list(players), transition_list=[list(x) for x in tl], final_states=list(finals))


def random_game(rng, n, acyclic=False, nonabs=False, **kw):
    """a proper, well-formed STOPPING game on n states (the domain of C02/C06): states carry a random rank; player
    states only move to higher ranks, probabilistic states have at least one higher-rank successor (others are
    arbitrary unless `acyclic`), the top ranks are zero-reward absorbing states (finals and possibly a sink).
    So from every state some final/sink is reached with probability >= pmin^n whatever the players do."""
    n_final = 1 if rng.random() < 0.7 or n < 4 else 2
    n_abs = n_final + (1 if n >= 4 and rng.random() < 0.7 else 0)
    order = list(range(n))
    rng.shuffle(order)                      # order[r] = state of rank r
    if rng.random() < 0.8:                  # usually the initial state is among the lowest ranks
        order.remove(0)
        order.insert(rng.choice([0, 0, 1]), 0)
    rank = {s: r for r, s in enumerate(order)}
    absorbing = order[n - n_abs:]
    finals = absorbing[:n_final]
    nonabs_final = None
    if (nonabs or (acyclic and rng.random() < 0.5)) and n >= 4 and rng.random() < 0.6:      # an extra, non-absorbing final state of lower rank
        # (in cyclic games only for the reachability phase: conditioning such a game need not leave a stopping game; acyclic games always terminate)
        nonabs_final = order[rng.randrange(0, n - n_abs)]
        if nonabs_final == 0 and rng.random() < 0.5:
            nonabs_final = None
    players, tl = [], []
    for s in range(n):
        if s in absorbing:
            # absorbing states (finals, the losing sink) are usually probabilistic, sometimes a player state that can only stay:
            # the conditioning treats the three owners differently (a Player 2 sink keeps its self-loop, a probabilistic one loses it)
            own = rng.choice([PR, PR, PR, P1, P2])
            players.append(own)
            tl.append([(1, s)] if own == PR else [("stay", s)])
            continue
        higher = [t for t in range(n) if rank[t] > rank[s]]
        pl = rng.choice([P1, P2, PR, PR])
        if pl == PR:
            ps = list(rng.choice(PROBS))
            pool = higher if acyclic else list(range(n))
            tg = [rng.choice(pool) for _ in ps]
            tg[rng.randrange(len(tg))] = rng.choice(higher)
            tl.append([(p if p != 1.0 or rng.random() < 0.5 else 1, t) for p, t in zip(ps, tg)])
        else:
            k = rng.randint(1, 3)
            ts = [(LABELS[i], rng.choice(higher)) for i in range(k)]
            if kw.get('selfloops') and rng.random() < 0.4:       # a player may also wait where it is (only for the reachability phase:
                ts.insert(rng.randrange(len(ts) + 1), ("wait", s))    # with a waiting Player 2 the game is not stopping)
            tl.append(ts)
        players.append(pl)
    rewards = [0 if s in absorbing else rng.choice([0, 0, 1, 2, 3, 0.5]) for s in range(n)]
    fl = list(finals) + ([nonabs_final] if nonabs_final is not None else [])
    rng.shuffle(fl)
    if rng.random() < 0.1:
        fl.append(fl[0])                    # repetition in the final list
    return mk_game(players, tl, rewards, fl)


FIG55 = mk_game(
    [P1, P2, P2, PR, PR, PR, PR, PR],
    [[("alfa", 1), ("beta", 2)], [("x", 3)], [("x", 4)], [(0.5, 5), (0.5, 6)], [(0.25, 7), (0.75, 6)], [(1, 5)], [(1, 6)], [(1, 7)]],
    [0, 0, 0, 3, 1, 0, 0, 0], [6])


def shaped_games():
    """hand-written shapes the property texts single out: several dead successors in every position, Player 1 states of
    value 0, unreachable parts, two finals, non-absorbing final, parallel edges, self loops"""
    out = [FIG55]
    # probabilistic state 0 with dead successors in various positions; 4 = final, 1,2,3 dead sinks, 5 alive relay
    for ns in ([(0.25, 1), (0.25, 2), (0.5, 4)], [(0.25, 1), (0.5, 4), (0.25, 2)], [(0.5, 4), (0.25, 1), (0.25, 2)],
               [(0.25, 1), (0.25, 2), (0.25, 3), (0.25, 4)], [(0.25, 1), (0.25, 5), (0.25, 2), (0.25, 4)],
               [(0.25, 4), (0.25, 1), (0.25, 5), (0.25, 2)], [(0.5, 1), (0.5, 2)], [(0.125, 1), (0.875, 5)]):
        out.append(mk_game([PR, PR, PR, PR, PR, PR], [ns, [(1, 1)], [(1, 2)], [(1, 3)], [(1, 4)], [(0.5, 4), (0.5, 1)]], [1, 0, 0, 0, 0, 2], [4]))
    # Player 1 at 0 with several zero-value and tied actions
    for ns in ([("a", 1), ("b", 2), ("c", 4)], [("a", 1), ("b", 4), ("c", 2)], [("a", 1), ("b", 2), ("c", 3)],
               [("a", 5), ("b", 4), ("c", 1)], [("a", 5), ("b", 5), ("c", 4)]):
        out.append(mk_game([P1, PR, PR, PR, PR, PR], [ns, [(1, 1)], [(1, 2)], [(1, 3)], [(1, 4)], [(0.5, 4), (0.5, 1)]], [1, 0, 0, 0, 0, 2], [4]))
    # Player 2 forcing away; P1 below it with dead actions
    out.append(mk_game([P2, P1, PR, PR, PR], [[("a", 1), ("b", 2)], [("a", 3), ("b", 4), ("c", 3)], [(0.5, 4), (0.5, 3)], [(1, 3)], [(1, 4)]], [0, 1, 2, 0, 0], [4]))
    out.append(mk_game([P2, PR, PR], [[("a", 1), ("b", 2)], [(1, 1)], [(1, 2)]], [0, 0, 0], [2]))
    # two finals, one not absorbing and listed first; parallel edges; self loop with exit
    out.append(mk_game([PR, PR, PR, PR], [[(0.5, 1), (0.5, 3)], [(1, 2)], [(1, 2)], [(1, 3)]], [1, 1, 0, 0], [1, 2]))
    out.append(mk_game([P1, PR, PR, PR], [[("l", 1), ("r", 1)], [(0.5, 1), (0.5, 2)], [(1, 2)], [(1, 3)]], [0, 1, 0, 0], [2]))
    # unreachable cycle; state only reachable through a pruned edge
    out.append(mk_game([PR, P2, PR, PR, P2, PR], [[(0.5, 1), (0.5, 3)], [("a", 2), ("b", 3)], [(1, 2)], [(1, 3)], [("a", 5)], [(1, 4)]], [0, 1, 0, 0, 0, 0], [2]))
    # chain with cycle among probabilistic states
    out.append(mk_game([PR, PR, PR, PR], [[(0.5, 1), (0.5, 0)], [(0.5, 2), (0.5, 0)], [(1, 2)], [(1, 3)]], [1, 2, 0, 0], [2]))
    # exact ties at values that are not exact at 6 decimals (1/3), with different rewards behind them
    out.append(mk_game([P1, PR, PR, PR, PR], [[("x", 1), ("y", 2)], [(1 / 3, 3), (2 / 3, 4)], [(1 / 3, 3), (2 / 3, 4)], [(1, 3)], [(1, 4)]], [0, 1, 5, 0, 0], [3]))
    out.append(mk_game([P2, PR, PR, PR, PR], [[("x", 1), ("y", 2)], [(0.1, 3), (0.9, 4)], [(0.1, 3), (0.9, 4)], [(1, 3)], [(1, 4)]], [0, 1, 5, 0, 0], [3]))
    out.append(mk_game([P2, PR, PR, PR, PR], [[("x", 1), ("y", 2)], [(2 / 3, 3), (1 / 3, 4)], [(2 / 3, 3), (1 / 3, 4)], [(1, 3)], [(1, 4)]], [0, 5 / 3, 5 / 3, 0, 0], [3]))
    # non-absorbing final states (acyclic, so every phase terminates): a final probabilistic state with a dead successor, a final Player 1 state
    # whose lower-reach action pays more
    out.append(mk_game([PR, PR, PR, PR, PR], [[(0.5, 1), (0.5, 4)], [(0.5, 3), (0.25, 4), (0.25, 2)], [(1, 2)], [(1, 3)], [(1, 4)]], [1, 1, 0, 0, 0], [1, 4]))
    out.append(mk_game([PR, P1, PR, PR, PR], [[(0.5, 1), (0.5, 4)], [("stay", 4), ("go", 2)], [(0.5, 4), (0.5, 3)], [(1, 3)], [(1, 4)]], [0, 0, 7, 0, 0], [1, 4]))
    out.append(mk_game([P1, P1, PR, PR], [[("a", 1), ("b", 3)], [("quit", 2), ("win", 3)], [(1, 2)], [(1, 3)]], [0, 1, 0, 0], [1, 3]))
    # near-tie of reachability values at a Player 2 state (0.5 vs 0.5000002): a tie at the solver's 6 digits, with different costs behind
    out.append(mk_game([P2, PR, PR, PR, PR], [[("x", 1), ("y", 2)], [(0.5, 3), (0.5, 4)], [(0.5000002, 3), (0.4999998, 4)], [(1, 3)], [(1, 4)]], [0, 9, 3, 0, 0], [3]))
    out.append(mk_game([P1, PR, PR, PR, PR], [[("x", 1), ("y", 2)], [(0.5, 3), (0.5, 4)], [(0.5000002, 3), (0.4999998, 4)], [(1, 3)], [(1, 4)]], [0, 9, 3, 0, 0], [3]))
    # a CHAIN of near-ties (0.5, 0.5000008, 0.5000016: neighbours closer than 1e-6, the ends not): a tie test that is not an
    # equivalence (|x - y| <= tol) gives answers that depend on the order in which the actions are listed
    for pl in (P1, P2):
        out.append(mk_game([pl, PR, PR, PR, PR, PR], [[("a", 1), ("b", 2), ("c", 3)], [(0.5, 4), (0.5, 5)], [(0.5000008, 4), (0.4999992, 5)], [(0.5000016, 4), (0.4999984, 5)], [(1, 4)], [(1, 5)]],
                           [0, 1, 5, 2, 0, 0], [4]))
        out.append(mk_game([pl, PR, PR, PR, PR, PR], [[("a", 1), ("c", 3), ("b", 2)], [(0.5, 4), (0.5, 5)], [(0.5000008, 4), (0.4999992, 5)], [(0.5000016, 4), (0.4999984, 5)], [(1, 4)], [(1, 5)]],
                           [0, 1, 5, 2, 0, 0], [4]))
    # the two diagnostics differ from the main outputs only below a Player 2 state whose reachability strategy (y: reach 0.2, costly) is not
    # its reward-minimal action (x): states UPSTREAM of it (single-action Player 2, Player 1, chance) must propagate the diagnostic, not the reward
    for root, first in ((P2, [("go", 1)]), (P1, [("go", 1)]), (PR, [(1, 1)]), (P2, [("go", 1), ("also", 1)]), (P1, [("go", 1), ("stop", 5)])):
        out.append(mk_game([root, P2, PR, PR, PR, PR], [first, [("x", 2), ("y", 3)], [(0.5, 4), (0.5, 5)], [(0.2, 4), (0.8, 5)], [(1, 4)], [(1, 5)]],
                           [1, 1, 1, 10, 0, 0], [4]))
    # dead branches that carry (almost) no probability: the surviving mass is 1.0 in floating point although a branch was removed
    for ns in ([(1e-17, 1), (0.5, 4), (0.5, 5)], [(0.5, 4), (1e-17, 1), (0.5, 5)], [(0.5, 4), (0.5, 5), (1e-17, 1)], [(0.5, 4), (0, 1), (0.5, 5)], [(0.0, 1), (1, 5)]):
        out.append(mk_game([PR, PR, PR, PR, PR, PR], [ns, [(1, 1)], [(1, 2)], [(1, 3)], [(1, 4)], [(0.5, 4), (0.5, 1)]], [1, 0, 0, 0, 0, 2], [4]))
    # a distribution whose float sum over sure successors exceeds 1 by one ulp (0.2 + 0.4 + 0.3 + 0.1), below Player 1 / chance / Player 2
    for root, first in ((P1, [("a", 1), ("b", 6)]), (PR, [(0.5, 1), (0.5, 6)]), (P2, [("a", 1), ("b", 1)])):
        out.append(mk_game([root, PR, PR, PR, PR, PR, PR, PR],
                           [first, [(0.2, 2), (0.4, 3), (0.3, 4), (0.1, 5)], [(1, 7)], [(1, 7)], [(1, 7)], [(1, 7)], [(1, 6)], [(1, 7)]], [0, 1, 2, 4, 8, 16, 0, 0], [7]))
    # a Player 1 state with two reachability-TIED actions, one of them into a Player 2 state whose reachability strategy is not its reward
    # strategy: the two diagnostics and the main outputs rank the actions differently (in both listing orders)
    for s0 in ([("a", 1), ("b", 2)], [("b", 2), ("a", 1)]):
        out.append(mk_game([P1, P2, PR, PR, PR, PR, PR], [s0, [("x", 3), ("y", 4)], [(0.5, 5), (0.5, 6)], [(1, 5)], [(0.5, 5), (0.5, 6)], [(1, 5)], [(1, 6)]],
                           [0, 0, 3, 1, 5, 0, 0], [5]))
        out.append(mk_game([P1, P2, PR, PR, PR, PR, PR], [s0, [("x", 3), ("y", 4)], [(0.5, 6), (0.5, 5)], [(0.5, 6), (0.5, 5)], [(0.9, 6), (0.1, 5)], [(1, 5)], [(1, 6)]],
                           [0, 0, 0, 10, 1, 0, 0], [6]))
    # a value that arrives LATE: a state gets part of its value at once and the larger part only sweeps later, through a longer route over
    # higher-numbered states; a player-owned predecessor must rank it by the final value (sweep orders / "settled state" shortcuts)
    out.append(mk_game([P1, P1, PR, PR, PR, PR, PR, PR, PR], [[("s", 1), ("t", 2)], [("short", 3), ("long", 4)], [(0.7, 7), (0.3, 8)], [(0.5, 7), (0.5, 8)], [(1, 5)], [(1, 6)],
                                                                  [(0.9, 7), (0.1, 8)], [(1, 7)], [(1, 8)]], [0, 1, 1, 1, 1, 1, 1, 0, 0], [7]))
    out.append(mk_game([P2, PR, PR, PR, PR, PR, PR], [[("v", 1), ("w", 2)], [(0.5, 5), (0.5, 3)], [(0.7, 5), (0.3, 6)], [(1, 4)], [(1, 5)], [(1, 5)], [(1, 6)]], [0, 1, 1, 1, 1, 0, 0], [5]))
    out.append(mk_game([P1, PR, PR, PR, PR, PR, PR], [[("v", 1), ("w", 2)], [(0.5, 5), (0.5, 3)], [(0.7, 5), (0.3, 6)], [(1, 4)], [(1, 5)], [(1, 5)], [(1, 6)]], [0, 1, 1, 1, 1, 0, 0], [5]))
    # a long shot: positive but tiny reachability values next to exact zeros
    for eps in (1e-7, 1e-9):
        out.append(mk_game([PR, PR, PR, PR, PR], [[(0.25, 1), (0.5, 2), (0.25, 4)], [(eps, 4), (1 - eps, 3)], [(0.5, 4), (0.5, 3)], [(1, 3)], [(1, 4)]], [1, 1, 1, 0, 0], [4]))
        out.append(mk_game([P1, PR, PR, PR, PR], [[("a", 1), ("b", 3)], [(eps, 4), (1 - eps, 3)], [(0.5, 4), (0.5, 3)], [(1, 3)], [(1, 4)]], [1, 1, 1, 0, 0], [4]))
    # slow convergence: a self-loop left with probability 5e-4 (about 12 000 sweeps), competing with a sure 0.6
    out.append(mk_game([P1, PR, PR, PR, PR], [[("retry", 1), ("shot", 2)], [(0.9995, 1), (0.0005, 3)], [(0.6, 3), (0.4, 4)], [(1, 3)], [(1, 4)]], [0, 0, 1, 0, 0], [3]))
    out.append(mk_game([P2, PR, PR, PR, PR], [[("loop", 1), ("pay", 2)], [(0.9995, 1), (0.0005, 3)], [(0.5, 3), (0.5, 4)], [(1, 3)], [(1, 4)]], [0, 1, 1995, 0, 0], [3]))
    # player-only end component
    out.append(mk_game([P1, P2, PR, PR], [[("a", 1), ("b", 2)], [("a", 0), ("b", 3)], [(1, 2)], [(1, 3)]], [1, 1, 0, 0], [2]))
    return out


def gen_games(rng, count, nmax=6, nonabs=False, slow=True, **kw):
    for g in shaped_games():
        if not slow and any(p == 0.9995 for ts in g['transition_list'] for p, _ in ts):
            continue
        if nonabs or all(len(g['transition_list'][f]) == 1 and g['transition_list'][f][0][1] == f for f in g['final_states']):
            yield copy.deepcopy(g)
    for i in range(count):
        n = rng.randint(3, nmax)
        yield random_game(rng, n, acyclic=(i % 3 == 0), nonabs=nonabs, **kw)


# ------------------------------------------------------------------ reference definitions
def can_reach(tl, finals):
    n = len(tl)
    rev = [[] for _ in range(n)]
    for u, ts in enumerate(tl):
        for _, v in ts:
            rev[v].append(u)
    seen = set(finals)
    todo = list(finals)
    while todo:
        v = todo.pop()
        for u in rev[v]:
            if u not in seen:
                seen.add(u)
                todo.append(u)
    return seen


def from0(tl):
    seen = {0}
    todo = [0]
    while todo:
        u = todo.pop()
        for _, v in tl[u]:
            if v not in seen:
                seen.add(v)
                todo.append(v)
    return seen


def br(game_players, tl, s, x):
    """reachability Bellman operator as the property words it: max / min / probability-weighted sum"""
    vals = [x[t] for _, t in tl[s]]
    if game_players[s] == P1:
        return max(vals)
    if game_players[s] == P2:
        return min(vals)
    return sum(p * x[t] for p, t in tl[s])


def vstar(game, cap=60000):
    """least fixed point from below; returns (vector, converged)"""
    n = len(game['players'])
    tl = game['transition_list']
    fin = set(game['final_states'])
    cr = can_reach(tl, fin)
    x = [1.0 if s in fin else 0.0 for s in range(n)]
    for it in range(cap):
        ch = 0.0
        for s in range(n):
            if s in fin or s not in cr:
                continue
            v = br(game['players'], tl, s, x)
            ch = max(ch, abs(v - x[s]))
            x[s] = v
        if ch == 0.0:
            return x, True
    return x, ch < 1e-15


def is_acyclic(tl, absorbing_ok=True):
    n = len(tl)
    color = [0] * n

    def dfs(u):
        color[u] = 1
        for _, v in tl[u]:
            if v == u and absorbing_ok and len(tl[u]) == 1:
                continue
            if color[v] == 1:
                return False
            if color[v] == 0 and not dfs(v):
                return False
        color[u] = 2
        return True
    return all(color[s] or dfs(s) for s in range(n))


def cond_game(game, rp, sigma, prune):
    """the conditioned game of C02/C03, from the statement"""
    tl = []
    for s, ts in enumerate(game['transition_list']):
        pl = game['players'][s]
        if pl == P1:
            keep = [(a, t) for a, t in ts if a in sigma[s] and (not prune or rp[t] != 0)]
        elif pl == PR and prune:
            alive = [(p, t) for p, t in ts if rp[t] != 0]
            if len(alive) == len(ts):
                keep = list(ts)
            else:
                tot = sum(p for p, _ in alive)
                keep = [(p / tot, t) for p, t in alive]
        else:
            keep = list(ts)
        tl.append(keep)
    return tl


def bw(players, rewards, tl, s, y):
    if not tl[s]:
        return 0
    vals = [y[t] for _, t in tl[s]]
    if players[s] == P1:
        return rewards[s] + max(vals)
    if players[s] == P2:
        return rewards[s] + min(vals)
    return rewards[s] + sum(p * y[t] for p, t in tl[s])


def close(a, b, tol):
    return abs(a - b) <= tol * max(1.0, abs(a), abs(b))


def tl_close(a, b, tol=1e-9):
    if len(a) != len(b):
        return False
    for (x, t), (y, u) in zip(a, b):
        if t != u:
            return False
        if isinstance(x, str) or isinstance(y, str):
            if x != y:
                return False
        elif not close(x, y, tol):
            return False
    return True


class Capture:
    """run the real solve() while capturing the solver's node lists at the point where conditioning is complete"""

    def __init__(s, tad):
        s.tad = tad
        s.lists = None
        s.nodes = None

    def solve(s, game, prune):
        tad = s.tad
        orig = tad.Solver.solve_total_rewards
        cap = s

        def wrapped(self, *a, **k):
            cap.lists = [list(st.next_states) for st in self.state_list]
            cap.nodes = self.state_list
            return orig(self, *a, **k)
        tad.Solver.solve_total_rewards = wrapped
        try:
            sg = s.obj if getattr(s, 'obj', None) is not None else tad.StochasticGame(**copy.deepcopy(game), prune_states=prune)
            sg.prune_states = prune
            return sg.solve()
        finally:
            tad.Solver.solve_total_rewards = orig

#!/venv/bin/python
"""Witness search / replay harness: runs the executable reading of a property's contract clauses on the REAL
code of the repository over shaped + seeded small inputs, replays the open known findings, and reports JSON.
A reported failure is always a concrete input that was just observed to fail on the real code."""
import argparse
import ast
import hashlib
import json
import os
import random
import sys
import time
import traceback

HERE = os.path.dirname(os.path.abspath(__file__))
sys.path.insert(0, HERE)
import lib   # noqa: E402


def registry():
    import suites
    return suites.SUITES, suites.CHECKERS


def write_replay(out, prop, suite, clause, msg, inp):
    h = hashlib.sha256(repr((suite, clause, inp)).encode()).hexdigest()[:10]
    path = os.path.join(out, f'{prop}-{suite}-{clause}-{h}.json'.replace('/', '_').replace(' ', '_'))
    path = os.path.join(out, os.path.basename(path))
    json.dump(dict(property=prop, kind='replayed-input', checker=suite, clause=clause, observed=msg, input=repr(inp)), open(path, 'w'), indent=1)
    return path


def main():
    ap = argparse.ArgumentParser()
    ap.add_argument('prop')
    ap.add_argument('--tier', default='quick')
    ap.add_argument('--seed', type=int, default=0)
    ap.add_argument('--repo', default='/repo')
    ap.add_argument('--out', default=os.path.join(os.path.dirname(HERE), 'replays'))
    a = ap.parse_args()
    os.makedirs(a.out, exist_ok=True)
    os.environ['ORACLE_PROP'] = a.prop
    t0 = time.time()
    mods = lib.load_repo(a.repo)
    SUITES, CHECKERS = registry()
    rng = random.Random(a.seed * 7919 + 13)
    evals = 0
    distinct = set()
    failures, known_out, samples = [], [], []
    per_clause = {}
    detail = {}
    # ---- known findings: replay each open one; remember (checker, clause, input) so the search does not re-report it
    known_inputs = set()
    kf = os.path.join(os.path.dirname(HERE), 'known_findings.jsonl')
    if os.path.exists(kf):
        for l in open(kf):
            l = l.strip()
            if not l or l.startswith('#'):
                continue
            k = json.loads(l)
            if k.get('property') != a.prop and a.prop not in k.get('also', []):
                continue
            if k.get('status') != 'open':
                continue
            inp = ast.literal_eval(k['input'])
            try:
                fs = CHECKERS[k['checker']](inp, mods, random.Random(0))
            except BaseException as e:   # noqa -- the recorded witness now makes the real code raise something the replayer does not expect:
                # that is a NEW failure on this input (a different one from the recorded finding), reported like any other
                msg = f'replaying the recorded input of {k["id"]} the real code raised {type(e).__name__}: {e}'
                path = write_replay(a.out, a.prop, k['checker'], 'unexpected-exception', msg, inp)
                failures.append(dict(clause='unexpected-exception', replay=path, message=msg[:300]))
                continue
            still = [f for f in fs if f[1] == k['clause']]
            known_inputs.add((k['checker'], k['clause'], k['input']))
            if still:
                known_out.append(dict(id=k['id'], what=f"[{k['id']}] {k['what']} -- still fails: {still[0][2][:200]}"))
            else:
                known_out.append(dict(id=k['id'], what=f"[{k['id']}] {k['what']} -- stored witness no longer fails (entry can be closed)", stale=True))
    for suite in SUITES.get(a.prop, []):
        name, gen, checker = suite['name'], suite['gen'], CHECKERS[suite['checker']]
        cnt = 0
        for inp in gen(rng, a.tier):
            cnt += 1
            evals += 1
            key = repr(inp)
            distinct.add(hashlib.md5(key.encode()).hexdigest())
            try:
                fs = checker(inp, mods, rng)
            except Exception as e:      # harness crash: report as an error of the checker, not as a violation
                print(json.dumps(dict(error=f'checker {suite["checker"]} crashed on {key[:300]}: {traceback.format_exc()[-600:]}', evaluations=evals, failures=[], known=[], samples=[])))
                return
            if len(samples) < 3 and cnt in (1, 30, 60):
                samples.append(dict(checker=suite['checker'], input=key[:400], failures=len(fs)))
            for props, clause, msg in fs:
                if a.prop not in props:
                    continue
                if (suite['checker'], clause, key) in known_inputs:
                    continue
                c = per_clause.get((name, clause), 0)
                per_clause[(name, clause)] = c + 1
                if c >= 2:
                    continue
                path = write_replay(a.out, a.prop, suite['checker'], clause, msg, inp)
                failures.append(dict(clause=clause, replay=path, message=msg[:300]))
            if len(failures) >= 6:
                break
        detail[name] = cnt
    print(json.dumps(dict(evaluations=evals, distinct=len(distinct), failures=failures, known=known_out, samples=samples, detail=detail, wall=round(time.time() - t0, 2))))


if __name__ == '__main__':
    main()

"""Executable contracts of the solver pipeline (tad.py): one real `solve` per mode, then every clause of
C01-C06, C10, C13, C14 that has an executable reading is evaluated on the outcome."""
import copy
import itertools
import math
import random
import signal
from lib import *

NOSOL = "The game has no solution"


class Timeout(Exception):
    pass


def _alarm(sig, frm):
    raise Timeout()


def timed(fn, secs):
    signal.signal(signal.SIGALRM, _alarm)
    signal.alarm(secs)
    try:
        return fn()
    finally:
        signal.alarm(0)


def run_both(game, mods):
    """-> dict mode -> ('ok', result8, lists) | ('err', exc)"""
    tad = mods['tad']
    out = {}
    for prune in (True, False):
        cap = Capture(tad)
        try:
            r = timed(lambda: cap.solve(game, prune), 5)
            out[prune] = ('ok', r, cap.lists)
        except Timeout:
            out[prune] = ('timeout', None, None)
        except BaseException as e:   # noqa
            out[prune] = ('err', e, cap.lists)
    return out


def run_history(game, mods, order):
    """the same clauses for a solve that FOLLOWS another one: one StochasticGame object on the caller's own lists (no copy in
    between), solved in the modes of `order`; -> (dict mode -> outcome of the LAST solve in that mode, the lists after the history)"""
    tad = mods['tad']
    work = copy.deepcopy(game)
    out = {}
    try:
        sg = tad.StochasticGame(**work, prune_states=order[0])
    except BaseException as e:   # noqa
        return {p: ('err', e, None) for p in (True, False)}, work
    for prune in order:
        cap = Capture(tad)
        cap.obj = sg
        try:
            r = timed(lambda: cap.solve(None, prune), 5)
            out[prune] = ('ok', r, cap.lists)
        except Timeout:
            out[prune] = ('timeout', None, None)
        except BaseException as e:   # noqa
            out[prune] = ('err', e, cap.lists)
    return out, work


def minprob(tl, players):
    return min([p for s, ts in enumerate(tl) if players[s] == PR for p, _ in ts] + [1])


def round6(x):
    return round(x, 6)


def check_reach(game, rp, rs, tag, fail, cr, vs, conv, acyc):
    players, tl, fin = game['players'], game['transition_list'], set(game['final_states'])
    n = len(players)
    # ---- C01
    for s in range(n):
        if s in fin and rp[s] != 1:
            fail({'C01'}, 'final-is-1', tag + f'final state {s} reports {rp[s]!r}')
        if s not in cr and rp[s] != 0:
            fail({'C01'}, 'nopath-is-0', tag + f'state {s} cannot reach a final state but reports {rp[s]!r}')
        if not (0 <= rp[s] <= 1 + EPS):
            fail({'C01'}, 'in-unit-interval', tag + f'state {s} reports {rp[s]!r}')
        if conv and rp[s] > vs[s] + EPS:
            fail({'C01'}, 'never-exceeds', tag + f'state {s} reports {rp[s]!r} > true value {vs[s]!r}')
        if conv and acyc and abs(rp[s] - vs[s]) > 1e-5:
            fail({'C01'}, 'acyclic-exact', tag + f'acyclic game: state {s} reports {rp[s]!r}, true value {vs[s]!r}')
        if s in cr and s not in fin:
            r_ = abs(rp[s] - br(players, tl, s, rp))
            if r_ > THRESH + 1e-12:
                fail({'C01'}, 'residual', tag + f'state {s}: |rp - BR(rp)| = {r_!r} > threshold')
    # ---- C04
    for s in range(n):
        if players[s] == PR:
            exp = None
        else:
            vals = [round6(rp[t]) for _, t in tl[s]]
            m = max(vals + [0]) if players[s] == P1 else min(vals + [1])
            exp = [a for (a, t), v in zip(tl[s], vals) if v == m]
        if rs[s] != exp:
            fail({'C04'}, 'reach-strategy', tag + f'state {s}: reported {rs[s]!r}, arg-opt of the rounded reported values is {exp!r}')
        if conv and players[s] != PR:
            tv = [vs[t] for _, t in tl[s]]
            tg = [t for _, t in tl[s]]
            # ties between DIFFERENT successors are compared only in acyclic games (exact there); in cyclic games the
            # stopping rule breaks such ties (known finding F-ACC), so only clearly separated values are compared
            sep = all(tg[i] == tg[j] or abs(tv[i] - tv[j]) > 1e-2 or (acyc and abs(tv[i] - tv[j]) <= 1e-9) for i in range(len(tv)) for j in range(len(tv)))
            if sep:
                m = max(tv) if players[s] == P1 else min(tv)
                exp2 = [a for (a, t), v in zip(tl[s], tv) if abs(v - m) <= 1e-9]
                if rs[s] != exp2:
                    fail({'C04'}, 'true-optimal-actions', tag + f'state {s}: reported {rs[s]!r}; the actions optimal for the TRUE successor values {tv!r} are {exp2!r}')


def check_reach_only(game, mods):
    """C01/C04 on games whose final states need not be absorbing: only the reachability phase of the real solver is run"""
    tad = mods['tad']
    F = []

    def fail(props, clause, msg):
        F.append((props, clause, msg))
    g = copy.deepcopy(game)
    tl, fin = game['transition_list'], set(game['final_states'])
    try:
        sg = tad.StochasticGame(**g, prune_states=False)
        sg.check_game()
        sl = sg.init_states()
        solver = tad.Solver(threshold=10**(-6), state_list=sl)
        rs, _ = timed(lambda: solver.solve_reachability(sg.transition_list, sg.final_states, False), 5)
    except BaseException as e:   # noqa
        fail({'C01', 'C06'}, 'reach-phase-error', f'reachability phase raised {type(e).__name__}: {e}')
        return F
    rp = [st.reach_probability for st in sl]
    vs, conv = vstar(game)
    check_reach(game, rp, rs, '[reach only] ', fail, can_reach(tl, fin), vs, conv, is_acyclic(tl))
    return F


def check_solve_history(game, mods):
    """every clause of check_solve must also hold for a solve that follows other solves of the same object / the same lists"""
    F = []
    for order in ((True, False), (False, True), (True, True, False)):
        F += check_solve(game, mods, order)
        if F:
            break
    return F


def check_solve(game, mods, order=None):
    """returns list of (properties, clause, message)"""
    F = []
    hist = '' if order is None else f'[after solving the same object on the same lists in modes {list(order)}] '

    def fail(props, clause, msg):
        F.append((props, clause, hist + msg))
    players, tl, rewards, finals = game['players'], game['transition_list'], game['rewards'], game['final_states']
    n = len(players)
    fin = set(finals)
    before = copy.deepcopy(game)
    work = game
    if order is None:
        res = run_both(game, mods)
    else:
        res, work = run_history(game, mods, order)
    cr = can_reach(tl, fin)
    vs, conv = vstar(game)
    acyc = is_acyclic(tl)
    # ---- C06: termination and exceptions
    # "declared unsolvable": a ValueError of the pruned solve that is the documented message, or -- should the wording ever change -- any
    # ValueError of the pruned solve of a game whose unpruned solve reports initial value 0 (the wording is not part of any property)
    def declared_unsolvable(prune):
        e = res[prune][1]
        return res[prune][0] == 'err' and isinstance(e, ValueError) and prune and \
            (NOSOL in str(e) or (res[False][0] == 'ok' and res[False][1][3][0] == 0))
    for prune in (True, False):
        kind = res[prune][0]
        if kind == 'timeout':
            fail({'C06'}, 'terminates', f'solve(prune={prune}) did not return within 20 s')
        elif kind == 'err':
            e = res[prune][1]
            if not declared_unsolvable(prune):
                # a legal stopping game for which solve produces no result at all: every property that states what solve reports fails with it
                fail({'C06', 'C01', 'C02', 'C03', 'C04', 'C05', 'C14'}, 'no-other-error', f'solve(prune={prune}) raised {type(e).__name__}: {e}')
    okF = res[False][0] == 'ok'
    okT = res[True][0] == 'ok'
    if okF:
        rpF = res[False][1][3]
        nosol_expected = (rpF[0] == 0)
        if declared_unsolvable(True) or (res[True][0] == 'err' and isinstance(res[True][1], ValueError) and NOSOL in str(res[True][1])):
            if not nosol_expected:
                fail({'C06'}, 'nosolution-iff-zero', f'"no solution" raised although the reported initial value is {rpF[0]!r}')
        elif okT and nosol_expected:
            fail({'C06'}, 'nosolution-iff-zero', 'initial value reported 0 but the pruned solve returned a result')
        if conv and vs[0] == 0 and okT:
            fail({'C06'}, 'zero-value-refused', 'true initial value is 0 but the pruned solve returned a result')
        if conv and acyc and vs[0] > 1e-3 and minprob(tl, players) >= 0.1 and not okT and declared_unsolvable(True):
            fail({'C06'}, 'positive-value-solved', f'true initial value {vs[0]} > 0 (acyclic game) but "no solution" was raised')
    for prune in (True, False):
        if res[prune][0] != 'ok':
            continue
        fs, rs, rew, rp, it1, it2, erm, emr = res[prune][1]
        lists = res[prune][2]
        tag = f'[prune={prune}] '
        # ---- C06 completeness of the result
        for nm, v in (('final_strategies', fs), ('reachability_strategies', rs), ('rewards', rew), ('probabilities', rp), ('prob_min_rew', erm), ('rew_min_reach', emr)):
            if not isinstance(v, list) or len(v) != n:
                fail({'C06'}, 'complete-result', tag + f'{nm} is not a list of length {n}: {v!r}')
        if F and any(c == 'complete-result' for _, c, _ in F):
            continue
        check_reach(game, rp, rs, tag, fail, cr, vs, conv, acyc)
        # ---- C03: conditioning
        sigma = rs
        ctl = cond_game(game, rp, sigma, prune)
        f0 = from0(ctl)
        scope = f0 if prune else set(range(n))
        if lists is not None:
            for s in range(n):
                if prune and players[s] in (P1, PR):
                    dead = [(x, t) for x, t in lists[s] if rp[t] == 0]
                    if dead:
                        fail({'C03', 'C02'}, 'no-dead-branch', tag + f'state {s} keeps transitions into zero-probability states: {dead!r}')
                if players[s] == PR and lists[s] and not close(sum(p for p, _ in lists[s]), 1.0, 1e-9):
                    fail({'C03', 'C02'}, 'sum-to-1', tag + f'probabilistic state {s}: surviving probabilities {lists[s]!r} do not sum to 1')
                if s in scope and not tl_close(lists[s], ctl[s]):
                    fail({'C03', 'C02'}, 'equals-conditioned-game', tag + f'state {s}: solver keeps {lists[s]!r}, the conditioned game has {ctl[s]!r}')
        # ---- C02: reward equations of the conditioned game
        for s in sorted(scope):
            want = bw(players, rewards, ctl, s, rew)
            if abs(rew[s] - want) > 2 * THRESH + 1e-9 * abs(want):
                fail({'C02'}, 'reward-residual', tag + f'state {s}: reported reward {rew[s]!r}, conditioned game equation gives {want!r}')
            if rew[s] < 0:
                fail({'C02'}, 'reward-nonneg', tag + f'state {s}: negative reward {rew[s]!r}')
        if acyc:
            y = [0.0] * n
            for _ in range(n + 2):
                for s in range(n):
                    y[s] = bw(players, rewards, ctl, s, y) if not (len(ctl[s]) == 1 and ctl[s][0][1] == s and rewards[s] == 0) else 0.0
            for s in sorted(scope):
                if abs(rew[s] - y[s]) > 1e-6 * max(1, abs(y[s])):
                    fail({'C02'}, 'acyclic-exact-reward', tag + f'acyclic game: state {s} reports reward {rew[s]!r}, conditioned value {y[s]!r}')
        # ---- C05
        for s in range(n):
            if players[s] == P1 and fs[s] is not None and rs[s] is not None:
                extra = [a for a in fs[s] if a not in rs[s]]
                if extra:
                    fail({'C05'}, 'inclusion', tag + f'state {s}: final strategy {fs[s]!r} not within reachability strategy {rs[s]!r}')
            if players[s] == PR:
                if fs[s] is not None:
                    fail({'C05'}, 'prob-none', tag + f'probabilistic state {s} has final strategy {fs[s]!r}')
                continue
            if s in scope:
                vals = [round6(rew[t]) for _, t in ctl[s]]
                if not vals:
                    exp = []
                else:
                    m = max(vals + [0]) if players[s] == P1 else min(vals)
                    exp = [a for (a, t), v in zip(ctl[s], vals) if v == m]
                if fs[s] != exp:
                    fail({'C05'}, 'final-strategy', tag + f'state {s}: reported {fs[s]!r}, arg-opt over the conditioned transitions is {exp!r}')
        # ---- C14 (acyclic games with single-action final strategies and no reward ties)
        abs_finals = all(len(tl[f]) == 1 and tl[f][0][1] == f for f in fin)      # C14's domain: final states absorbing
        # cyclic games: the induced chain is evaluated by iterating to convergence (skipped when it does not converge); the
        # comparison is then only as tight as the solver's own stopping rule allows on chains that contract by >= 0.1 per step
        if abs_finals and (acyc or minprob(tl, players) >= 0.1):
            tol14 = 1e-6 if acyc else 1e-3
            single = all(fs[s] is None or len(fs[s]) == 1 for s in scope)
            noties = True
            for s in scope:
                if players[s] != PR and len(ctl[s]) > 1:
                    vals = sorted(rew[t] for _, t in ctl[s])
                    if any(abs(a - b) < 1e-5 for a, b in zip(vals, vals[1:])):
                        noties = False
            if single and noties:
                # chain induced by the final strategies in the conditioned game
                pr = [1.0 if s in fin else 0.0 for s in range(n)]
                rw = [0.0] * n
                settled = acyc
                for _ in range(n + 2 if acyc else 20000):
                    prev14 = (list(pr), list(rw))
                    for s in range(n):
                        if s not in scope or not ctl[s]:
                            continue
                        if players[s] == PR:
                            if s not in fin:
                                pr[s] = sum(p * pr[t] for p, t in ctl[s])
                            rw[s] = rewards[s] + sum(p * rw[t] for p, t in ctl[s]) if not (len(ctl[s]) == 1 and ctl[s][0][1] == s) else (rewards[s] and float('inf'))
                        else:
                            t1 = [t for a, t in ctl[s] if a == fs[s][0]][0]
                            if s not in fin:
                                pr[s] = pr[t1]
                            if players[s] == P1:
                                rw[s] = rewards[s] + rw[t1]
                            else:
                                cands = [rw[t] for a, t in ctl[s] if a in rs[s]]
                                rw[s] = rewards[s] + min(cands)
                    if not acyc and all(abs(a - b) <= 1e-13 * max(1, abs(a)) for x, y in zip(prev14, (pr, rw)) for a, b in zip(x, y) if math.isfinite(a) and math.isfinite(b)):
                        settled = True
                        break
                for s in (sorted(scope) if settled else []):
                    if s in fin and not (len(ctl[s]) == 1 and ctl[s][0][1] == s):
                        continue
                    if abs(erm[s] - pr[s]) > tol14:
                        fail({'C14'}, 'prob-under-min-reward', tag + f'state {s}: reported {erm[s]!r}, induced chain reaches a final state with probability {pr[s]!r}')
                    if math.isfinite(rw[s]) and abs(emr[s] - rw[s]) > tol14 * max(1, abs(rw[s])):
                        fail({'C14'}, 'reward-under-min-reach', tag + f'state {s}: reported {emr[s]!r}, induced expected reward {rw[s]!r}')
    # ---- C01/C04: identical with pruning on or off
    if okF and okT:
        if res[True][1][3] != res[False][1][3]:
            fail({'C01'}, 'prune-independent', f'probabilities differ between modes: {res[True][1][3]!r} vs {res[False][1][3]!r}')
        if res[True][1][1] != res[False][1][1]:
            fail({'C04'}, 'prune-independent', f'reachability strategies differ between modes: {res[True][1][1]!r} vs {res[False][1][1]!r}')
    # ---- C10: description intact, repeatable
    if game != before or work != before:
        fail({'C10'}, 'description-intact', f'solve changed the description: {before!r} -> {work!r}')
    return F


def norm_res(r):
    if r[0] != 'ok':
        return (r[0], type(r[1]).__name__ if r[1] is not None else None, str(r[1]))
    return ('ok', r[1])


def check_repeat(game, mods, rng=None):
    """C10: all orders of pruned/unpruned solves on one object and on the caller's own lists"""
    tad = mods['tad']
    F = []
    base = {}
    for prune in (True, False):
        g = copy.deepcopy(game)
        try:
            base[prune] = ('ok', timed(lambda: tad.StochasticGame(**g, prune_states=prune).solve(), 20))
        except BaseException as e:   # noqa
            base[prune] = ('err', type(e).__name__, str(e))
    for seq in ([True, True], [True, False], [False, True], [False, False, True], [True, False, True]):
        g = copy.deepcopy(game)
        snapshot = copy.deepcopy(g)
        sg = tad.StochasticGame(**g, prune_states=seq[0])      # the caller's own lists, no copy
        for k, prune in enumerate(seq):
            sg.prune_states = prune
            try:
                r = ('ok', timed(lambda: sg.solve(), 20))
            except BaseException as e:   # noqa
                r = ('err', type(e).__name__, str(e))
            if r != base[prune]:
                F.append(({'C10'}, 'repeatable', f'solve sequence {seq[:k + 1]} through one object: solve #{k + 1} gave {r!r}, a fresh solve gives {base[prune]!r}'))
                break
            if g != snapshot:
                F.append(({'C10'}, 'description-intact', f'after solve sequence {seq[:k + 1]} the description is {g!r}, was {snapshot!r}'))
                break
            # a fresh object on the same (caller-owned) description
            try:
                r2 = ('ok', timed(lambda: tad.StochasticGame(**g, prune_states=prune).solve(), 20))
            except BaseException as e:   # noqa
                r2 = ('err', type(e).__name__, str(e))
            if r2 != base[prune]:
                F.append(({'C10'}, 'repeatable', f'after {seq[:k + 1]}, a fresh object on the same description gave {r2!r}, expected {base[prune]!r}'))
                break
    return F


def permute_game(game, rng, reverse=False):
    n = len(game['players'])
    perm = ([0] + list(range(n - 1, 0, -1))) if reverse else ([0] + rng.sample(range(1, n), n - 1))          # perm[old] = new
    inv = [0] * n
    for o, nw in enumerate(perm):
        inv[nw] = o
    ren = {}
    tl = []
    for nw in range(n):
        o = inv[nw]
        ts = [(x, perm[t]) for x, t in game['transition_list'][o]]
        if reverse:
            ts.reverse()
        else:
            rng.shuffle(ts)
        ts = [((ren.setdefault(x, 'z' + x) if isinstance(x, str) else x), t) for x, t in ts]
        tl.append(ts)
    g2 = mk_game([game['players'][inv[nw]] for nw in range(n)], tl, [game['rewards'][inv[nw]] for nw in range(n)], [perm[f] for f in game['final_states']][::-1])
    return g2, perm, ren


def check_permutation(game, mods, rng):
    """C13 on acyclic games (value iteration is exact there, so the comparison needs no convergence argument)"""
    F = []
    if not is_acyclic(game['transition_list']):
        return F
    tad = mods['tad']
    for reverse in (True, False):
        F += _check_perm(game, tad, rng, reverse)
        if F:
            break
    return F


def _check_perm(game, tad, rng, reverse):
    F = []
    g2, perm, ren = permute_game(game, rng, reverse)
    n = len(perm)
    for prune in (True, False):
        rr = []
        for g in (game, g2):
            try:
                rr.append(('ok', timed(lambda: tad.StochasticGame(**copy.deepcopy(g), prune_states=prune).solve(), 20)))
            except BaseException as e:   # noqa
                rr.append(('err', e))
        if rr[0][0] != rr[1][0]:
            F.append(({'C13'}, 'solvability', f'[prune={prune}] original {rr[0][0]} ({rr[0][1] if rr[0][0] == "err" else ""}), permuted presentation {rr[1][0]} ({rr[1][1] if rr[1][0] == "err" else ""}); permuted game {g2!r}'))
            continue
        if rr[0][0] != 'ok':
            continue
        a, b = rr[0][1], rr[1][1]
        for s in range(n):
            for idx, nm in ((3, 'probability'), (2, 'reward')):
                if not close(a[idx][s], b[idx][perm[s]], 1e-9):
                    F.append(({'C13'}, nm, f'[prune={prune}] state {s}: {nm} {a[idx][s]!r}, in the permuted presentation {b[idx][perm[s]]!r}; permuted game {g2!r}'))
            for idx, nm in ((1, 'reachability strategy'), (0, 'final strategy')):
                x, y = a[idx][s], b[idx][perm[s]]
                xs = None if x is None else sorted(ren.get(l, l) for l in x)
                ys = None if y is None else sorted(y)
                if xs != ys:
                    F.append(({'C13'}, nm, f'[prune={prune}] state {s}: {nm} {x!r}, in the permuted presentation {y!r} (renaming {ren}); permuted game {g2!r}'))
    return F

"""Which executable-contract checkers run for which property, and on which inputs."""
import copy
import random
import lib
import solver_checks as SC
import graph_checks as GC
import gen_checks as NC
import board_checks as BC
import malformed_checks as MC
import batch_checks as XC

N_GAMES = dict(quick=1500, thorough=40000)


def games(rng, tier):
    yield from lib.gen_games(rng, N_GAMES[tier])


def games_few(rng, tier):
    yield from lib.gen_games(rng, N_GAMES[tier] // 4, slow=False)


def games_nonabs(rng, tier):
    yield from lib.gen_games(rng, N_GAMES[tier] // 3, nonabs=True)


def games_selfloops(rng, tier):
    for g in lib.gen_games(rng, N_GAMES[tier] // 3, nonabs=True, selfloops=True):
        yield g


CHECKERS = {
    'batch': XC.check_batch,
    'report': XC.check_report,
    'accuracy': XC.check_accuracy,
    'pair-solvable': XC.check_pair_solvable,
    'true-ties': XC.check_true_ties,
    'generated-solves': XC.check_generated_solves,
    'malformed': MC.check_malformed,
    'board': BC.check_board,
    'params': NC.check_params,
    'names': NC.check_names,
    'graph': GC.check_graph,
    'reach': lambda inp, mods, rng: SC.check_reach_only(inp, mods),
    'solve': lambda inp, mods, rng: SC.check_solve(inp, mods),
    'solve-history': lambda inp, mods, rng: SC.check_solve_history(inp, mods),
    'repeat': lambda inp, mods, rng: SC.check_repeat(inp, mods, rng),
    'permute': lambda inp, mods, rng: SC.check_permutation(inp, mods, rng),
}
SUITES = {}
for p in ('C01', 'C02', 'C03', 'C04', 'C05', 'C06', 'C14'):
    SUITES[p] = [dict(name='solve-small-games', gen=games, checker='solve'),
                 dict(name='solve-after-solve-on-one-object', gen=games_few, checker='solve-history')]
for p in ('C01', 'C04'):
    SUITES[p] = SUITES[p] + [dict(name='reach-phase-nonabsorbing-finals', gen=games_nonabs, checker='reach'),
                             dict(name='reach-phase-players-may-wait', gen=games_selfloops, checker='reach')]
SUITES['C10'] = [dict(name='solve-small-games', gen=games, checker='solve'), dict(name='repeat-sequences', gen=games_few, checker='repeat')]
SUITES['C13'] = [dict(name='permuted-presentations', gen=games, checker='permute')]

SUITES['C07'] = [dict(name='graphs', gen=GC.gen_graphs, checker='graph')]

SUITES['C15'] = [dict(name='parameter-sets-and-boards', gen=NC.gen_params, checker='params')]
SUITES['C17'] = [dict(name='file-names', gen=NC.gen_names, checker='names')]

SUITES['C08'] = [dict(name='boards-vs-roborta-game', gen=BC.gen_boards, checker='board')]
SUITES['C11'] = [dict(name='boards-file-proper', gen=BC.gen_boards, checker='board'), dict(name='parameter-sets-and-boards', gen=NC.gen_params, checker='params')]

SUITES['C09'] = [dict(name='malformed-games', gen=MC.gen_malformed, checker='malformed')]

SUITES['C12'] = [dict(name='batches', gen=XC.gen_batches, checker='batch')]
SUITES['C16'] = [dict(name='reports', gen=XC.gen_reports, checker='report')]

"""Which executable-contract checkers run for which property, and on which inputs."""
import copy
import random
import lib
import solver_checks as SC
import graph_checks as GC
import gen_checks as NC
import board_checks as BC
import malformed_checks as MC
import batch_checks as XC

N_GAMES = dict(quick=1500, thorough=40000)


def games(rng, tier):
    yield from lib.gen_games(rng, N_GAMES[tier])


def games_few(rng, tier):
    yield from lib.gen_games(rng, N_GAMES[tier] // 4, slow=False)


def games_nonabs(rng, tier):
    yield from lib.gen_games(rng, N_GAMES[tier] // 3, nonabs=True)


def games_selfloops(rng, tier):
    for g in lib.gen_games(rng, N_GAMES[tier] // 3, nonabs=True, selfloops=True):
        yield g


def games_shared(rng, tier):
    """descriptions in which ONE list object serves as the transition list of two states (legal: nothing forbids it, and a description
    built by a program easily has it). A replay file cannot carry object identity, so the sharing is recorded as `shared: [[i, j]]`
    and re-established by the checker. Shape 0: a Player 2 state and an unreachable Player 1 'mirror' own the same two moves, the
    mirror's reachability-optimal set drops the move that is Player 2's cheapest. Then random stopping games to which unreachable
    mirror states are appended: a Player 1 and a Player 2 mirror of a player state, a probabilistic mirror of a chance state."""
    from lib import P1, P2, PR, mk_game
    L = [("l", 3), ("r", 4)]
    g = mk_game([P1, P2, PR, PR, PR, PR, PR, P1],
                [[("in", 1), ("out", 2)], L, [(0.5, 6), (0.5, 5)], [(1, 6)], [(0.5, 6), (0.5, 5)], [(1, 5)], [(1, 6)], L],
                [0, 0, 5, 10, 1, 0, 0, 0], [6])
    yield dict(g, shared=[[1, 7]])
    g = mk_game([P1, P2, PR, PR, PR, PR, PR, P2], g['transition_list'], [0, 0, 5, 10, 1, 0, 0, 0], [6])
    yield dict(g, shared=[[1, 7]])
    for base in lib.gen_games(rng, N_GAMES[tier] // 6, slow=False):
        g = copy.deepcopy(base)
        n0 = len(g['players'])
        shared = []
        pl = [i for i in range(n0) if g['players'][i] in (P1, P2) and i not in g['final_states']]
        ch = [i for i in range(n0) if g['players'][i] == PR and i not in g['final_states'] and len(g['transition_list'][i]) >= 2]
        picks = ([(rng.choice(pl), P1), (rng.choice(pl), P2)] if pl else []) + ([(rng.choice(ch), PR)] if ch else [])
        for i, owner in picks:
            g['players'].append(owner)
            g['rewards'].append(0)
            g['transition_list'].append(list(g['transition_list'][i]))
            shared.append([i, len(g['players']) - 1])
        if shared:
            yield dict(g, shared=shared)


def check_solve_shared(inp, mods, rng=None):
    g = copy.deepcopy({k: v for k, v in inp.items() if k != 'shared'})
    for i, j in inp['shared']:
        g['transition_list'][j] = g['transition_list'][i]          # the SAME list object
    note = f'[states {inp["shared"]} share one list object] '
    F = SC.check_solve(g, mods)
    if not F:
        F = SC.check_solve_history(g, mods)
    return [(p_, c_, note + m_) for p_, c_, m_ in F]


CHECKERS = {
    'solve-shared': check_solve_shared,
    'batch': XC.check_batch,
    'report': XC.check_report,
    'accuracy': XC.check_accuracy,
    'pair-solvable': XC.check_pair_solvable,
    'true-ties': XC.check_true_ties,
    'generated-solves': XC.check_generated_solves,
    'malformed': MC.check_malformed,
    'board': BC.check_board,
    'params': NC.check_params,
    'names': NC.check_names,
    'graph': GC.check_graph,
    'reach': lambda inp, mods, rng: SC.check_reach_only(inp, mods),
    'solve': lambda inp, mods, rng: SC.check_solve(inp, mods),
    'solve-history': lambda inp, mods, rng: SC.check_solve_history(inp, mods),
    'repeat': lambda inp, mods, rng: SC.check_repeat(inp, mods, rng),
    'permute': lambda inp, mods, rng: SC.check_permutation(inp, mods, rng),
}
SUITES = {}
for p in ('C01', 'C02', 'C03', 'C04', 'C05', 'C06', 'C14'):
    SUITES[p] = [dict(name='solve-small-games', gen=games, checker='solve'),
                 dict(name='solve-after-solve-on-one-object', gen=games_few, checker='solve-history')]
for p in ('C02', 'C03', 'C05', 'C06', 'C10'):
    SUITES.setdefault(p, [])
for p in ('C02', 'C03', 'C05', 'C06'):
    SUITES[p] = SUITES[p] + [dict(name='states-sharing-one-list-object', gen=games_shared, checker='solve-shared')]
for p in ('C01', 'C04'):
    SUITES[p] = SUITES[p] + [dict(name='reach-phase-nonabsorbing-finals', gen=games_nonabs, checker='reach'),
                             dict(name='reach-phase-players-may-wait', gen=games_selfloops, checker='reach')]
SUITES['C10'] = [dict(name='solve-small-games', gen=games, checker='solve'), dict(name='repeat-sequences', gen=games_few, checker='repeat'),
                 dict(name='states-sharing-one-list-object', gen=games_shared, checker='solve-shared')]
SUITES['C13'] = [dict(name='permuted-presentations', gen=games, checker='permute')]

SUITES['C07'] = [dict(name='graphs', gen=GC.gen_graphs, checker='graph')]

SUITES['C15'] = [dict(name='parameter-sets-and-boards', gen=NC.gen_params, checker='params')]
SUITES['C17'] = [dict(name='file-names', gen=NC.gen_names, checker='names')]

SUITES['C08'] = [dict(name='boards-vs-roborta-game', gen=BC.gen_boards, checker='board')]
SUITES['C11'] = [dict(name='boards-file-proper', gen=BC.gen_boards, checker='board'), dict(name='parameter-sets-and-boards', gen=NC.gen_params, checker='params')]

SUITES['C09'] = [dict(name='malformed-games', gen=MC.gen_malformed, checker='malformed')]

SUITES['C12'] = [dict(name='batches', gen=XC.gen_batches, checker='batch')]
SUITES['C16'] = [dict(name='reports', gen=XC.gen_reports, checker='report')]

import sys, time, collections
sys.path.insert(0, '/verif')
from pyvc.registry import make_gen
from pyvc.discharge import discharge
from pyvc import lemmas
from pyvc.engine import AXIOMS
g = make_gen()
pat = sys.argv[1] if len(sys.argv) > 1 else ''
tot = []
t0 = time.time()
for q, c in g.contracts.items():
    if pat not in q or c.get('virtual'): continue
    try:
        import pyvc.check as CK
        obls, infos, inapp = CK.gen_obligations(g, dict(functions=[q]))
        if inapp: print('INAPPLICABLE', inapp)
    except Exception as e:
        import traceback; traceback.print_exc(); print('FAIL', q, e); continue
    res = discharge(obls, timeout=int(sys.argv[2]) if len(sys.argv) > 2 else 10)
    cnt = collections.Counter(r['status'] for r in res)
    print(q, len(obls), dict(cnt), 'max %.2fs' % max([r['time'] for r in res] + [0]))
    for r in res:
        if r['status'] != 'proved': print('    ', r['status'], r['name'], r['solver'], '%.1f' % r['time'], r.get('err', ''))
if not pat or pat == 'lemma':
    obls = [o for n in lemmas.REGISTRY for o in lemmas.obligations(n)]
    res = discharge(obls, axioms=[AXIOMS['round6']], timeout=10)
    print('lemmas', len(obls), dict(collections.Counter(r['status'] for r in res)))
    for r in res:
        if r['status'] != 'proved': print('    ', r['status'], r['name'])
print('total %.1fs' % (time.time() - t0))

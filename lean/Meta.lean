-- M-LFP: least-fixed-point induction and inversion for backward reachability
inductive Reach {α : Type} (final : α → Prop) (edge : α → α → Prop) : α → Prop
  | base {s} : final s → Reach final edge s
  | step {u v} : edge u v → Reach final edge v → Reach final edge u

theorem M_LFP {α : Type} (final : α → Prop) (edge : α → α → Prop) (S : α → Prop)
    (hfin : ∀ s, final s → S s) (hclosed : ∀ u v, edge u v → S v → S u) :
    ∀ s, Reach final edge s → S s := by
  intro s h
  induction h with
  | base hf => exact hfin _ hf
  | step he _ ih => exact hclosed _ _ he ih

theorem M_LFP_inv {α : Type} (final : α → Prop) (edge : α → α → Prop) (s : α)
    (h : Reach final edge s) : final s ∨ ∃ v, edge s v ∧ Reach final edge v := by
  cases h with
  | base hf => exact Or.inl hf
  | step he hr => exact Or.inr ⟨_, he, hr⟩

-- M-PROGRESS (integer form): a quantity that stays >= 0 and drops by at least 1 at each of k steps allows at most f 0 steps.
-- (The well-foundedness argument behind a real-valued variant scaled by the threshold; not used by any discharged obligation yet:
-- termination of the sweeps is reported as unproved.)
theorem M_PROGRESS (f : Nat → Int) (k : Nat) (hnonneg : 0 ≤ f k)
    (hdec : ∀ i, i < k → f (i+1) + 1 ≤ f i) : (k : Int) ≤ f 0 := by
  have h : ∀ j, j ≤ k → (j : Int) + f j ≤ f 0 := by
    intro j
    induction j with
    | zero => intro _; simp
    | succ n ih =>
      intro hj
      have h1 := ih (Nat.le_of_succ_le hj)
      have h2 := hdec n (Nat.lt_of_succ_le hj)
      push_cast
      omega
  have h3 := h k (Nat.le_refl k)
  omega
#print axioms M_LFP
#print axioms M_LFP_inv
#print axioms M_PROGRESS

-- the introduction rules hold of Reach itself, so a search result that lies inside EVERY predicate closed under them lies inside Reach
theorem Reach_intro_final {α : Type} (final : α → Prop) (edge : α → α → Prop) (s : α) (h : final s) : Reach final edge s := Reach.base h
theorem Reach_intro_step {α : Type} (final : α → Prop) (edge : α → α → Prop) (u v : α) (he : edge u v) (h : Reach final edge v) :
    Reach final edge u := Reach.step he h

-- forward reachability from an initial state and its inversion rule (used by the contract of Solver.prune_states: the
-- postcondition is proved for ANY predicate satisfying the inversion rule, in particular for From0)
inductive From0 {α : Type} (s0 : α) (edge : α → α → Prop) : α → Prop
  | init : From0 s0 edge s0
  | step {p s} : From0 s0 edge p → edge p s → From0 s0 edge s

theorem From0_inv {α : Type} (s0 : α) (edge : α → α → Prop) (s : α) (h : From0 s0 edge s) :
    s = s0 ∨ ∃ p, From0 s0 edge p ∧ edge p s := by
  cases h with
  | init => exact Or.inl rfl
  | step hp he => exact Or.inr ⟨_, hp, he⟩
#print axioms From0_inv
-- M-PERM (C13): a function of a list that is invariant under exchanging two NEIGHBOURING elements at any position is invariant
-- under every permutation of the list. (The SMT side proves the neighbour-exchange invariance of the spec functions -- PERM_LEMMAS;
-- this is the "every permutation is a product of neighbour exchanges" step.)
theorem M_PERM {α β : Type} (f : List α → β)
    (hswap : ∀ (p : List α) (a b : α) (l : List α), f (p ++ a :: b :: l) = f (p ++ b :: a :: l)) :
    ∀ {l l' : List α}, List.Perm l l' → f l = f l' := by
  have key : ∀ {l l' : List α}, List.Perm l l' → ∀ p : List α, f (p ++ l) = f (p ++ l') := by
    intro l l' h
    induction h with
    | nil => intro p; rfl
    | cons x _ ih =>
      intro p
      have := ih (p ++ [x])
      simpa [List.append_assoc] using this
    | swap x y l => intro p; exact hswap p y x l
    | trans _ _ ih1 ih2 => intro p; exact (ih1 p).trans (ih2 p)
  intro l l' h
  simpa using key h []
#print axioms M_PERM

-- the same for a PREDICATE on lists (position-free membership statements)
theorem M_PERM_pred {α : Type} (P : List α → Prop)
    (hswap : ∀ (p : List α) (a b : α) (l : List α), P (p ++ a :: b :: l) ↔ P (p ++ b :: a :: l)) :
    ∀ {l l' : List α}, List.Perm l l' → (P l ↔ P l') := by
  intro l l' h
  have := M_PERM (β := Prop) P (fun p a b l => propext (hswap p a b l)) h
  rw [this]
#print axioms M_PERM_pred

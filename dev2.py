import sys
sys.path.insert(0, '/verif')
from pyvc.registry import make_gen
from pyvc.discharge import to_smt2
from pyvc.engine import AXIOMS
g = make_gen()
obls, info = g.run(sys.argv[1])
for o in obls:
    if sys.argv[2] in o.name:
        print(o.name); 
        for h in o.hyps: print('  H', h)
        print('  G', o.goal)
        open('/tmp/q.smt2','w').write(to_smt2(o))
        break

"""Sidecar contracts for /repo/reverse_dfs.py (C07). Value model: every list/dict here is built locally and has a
single access path when it is mutated (DESIGN 2.3)."""
from pyvc.ty import *
from .rdfs_spec import *

C = {}
DIL = DICT(INT, LI)


def contract(name, **kw):
    kw.setdefault('heap', [])
    kw.setdefault('lheap', [])
    kw.setdefault('tuple2', 'pair')
    kw.setdefault('props', ['C07', 'C01', 'C06', 'C13'])
    C['reverse_dfs.' + name] = kw


def edge_count(u, v, tl='transition_list'):
    return f"(CountT({tl}[{u}], {v}, len({tl}[{u}])) if 0 <= {u} and {u} < len({tl}) else 0)"


# ---- reverse_transition_list_core: one (target, source) pair per transition, nothing else
contract('reverse_transition_list_core',
         params={'transition_list': TL}, result=LP,
         locals={'reversed_transition_list': LP, 'current_state': INT, 'state_transitions': NS, 'next_state': INT, '_': STR},
         requires=[], modifies={},
         ensures=[f"forall(v, forall(u, CountP(result, len(result), (v, u)) == {edge_count('u', 'v')}))"],
         loops={0: dict(inv=[f"forall(v, forall(u, CountP(reversed_transition_list, len(reversed_transition_list), (v, u)) == (CountT(transition_list[u], v, len(transition_list[u])) if 0 <= u and u < _i else 0)))"]),
                1: dict(inv=["forall(v, forall(u, CountP(reversed_transition_list, len(reversed_transition_list), (v, u)) == "
                             "(CountT(transition_list[u], v, len(transition_list[u])) if 0 <= u and u < current_state else (CountT(state_transitions, v, _i1) if u == current_state else 0))))",
                             "current_state == _i", "state_transitions == transition_list[_i]", "0 <= _i and _i < len(transition_list)"],
                        ghost_decl=[('r_before', LP)], ghost_mod=[('r_before', LP)], ghost_pre=[('r_before', LP, 'reversed_transition_list')],
                        use={0: ["forall(v, forall(u, L_CountP_ext(reversed_transition_list, r_before, len(r_before), (v, u))))"]})})

# ---- list_of_tuples_to_dict_of_lists: d[v] lists, in order, the second components of the pairs whose first is v
LT_ = "list_of_tuples"
contract('list_of_tuples_to_dict_of_lists',
         params={'list_of_tuples': LP}, result=DIL,
         locals={'dict_of_lists': DIL, '_tuple': PII},
         requires=[], modifies={},
         ensures=[f"forall(v, has(result, v) == exists(k, 0, len({LT_}), {LT_}[k][0] == v))",
                  f"forall(v, forall(u, CountI(dval(result, v), len(dval(result, v)), u) == CountP({LT_}, len({LT_}), (v, u))))",
                  "forall(v, implies(not has(result, v), len(dval(result, v)) == 0))"],
         loops={0: dict(inv=[f"forall(v, has(dict_of_lists, v) == exists(k, 0, _i, {LT_}[k][0] == v))",
                             f"forall(v, forall(u, CountI(dval(dict_of_lists, v), len(dval(dict_of_lists, v)), u) == CountP({LT_}, _i, (v, u))))",
                             "forall(v, implies(not has(dict_of_lists, v), len(dval(dict_of_lists, v)) == 0))",
                             "forall(v, len(dval(dict_of_lists, v)) >= 0)"],
                        ghost_decl=[('d_before', DIL)], ghost_mod=[('d_before', DIL)], ghost_pre=[('d_before', DIL, 'dict_of_lists')],
                        use={1: ["forall(u, L_CountI_ext(dval(dict_of_lists, _tuple[0]), dval(d_before, _tuple[0]), len(dval(d_before, _tuple[0])), u))"]})})

# ---- add_missing_states: every state 0..n-1 becomes a key; existing entries are untouched; new ones are empty
contract('add_missing_states',
         params={'transition_dict': DIL, 'number_of_states': INT}, result=DIL,
         locals={'state': INT},
         requires=["forall(v, len(dval(transition_dict, v)) >= 0)"], modifies={},
         ensures=["forall(v, has(result, v) == (old(has(transition_dict, v)) or (0 <= v and v < number_of_states)))",
                  "forall(v, implies(old(has(transition_dict, v)), dval(result, v) == old(dval(transition_dict, v))))",
                  "forall(v, implies(not old(has(transition_dict, v)) and has(result, v), len(dval(result, v)) == 0))"],
         loops={0: dict(inv=["forall(v, has(transition_dict, v) == (old(has(transition_dict, v)) or (0 <= v and v < _i)))",
                             "forall(v, implies(old(has(transition_dict, v)), dval(transition_dict, v) == old(dval(transition_dict, v))))",
                             "forall(v, implies(not old(has(transition_dict, v)) and has(transition_dict, v), len(dval(transition_dict, v)) == 0))"])})

# ---- reverse_transition_list: an entry for every state; u is listed under v once per transition from u to v
contract('reverse_transition_list',
         params={'transition_list': TL}, result=DIL,
         locals={'reversed_transition_list': LP, 'reversed_transition_dict': DIL},
         requires=[], modifies={},
         ensures=["forall(v, implies(0 <= v and v < len(transition_list), has(result, v)))",
                  f"forall(v, forall(u, implies(has(result, v), CountI(dval(result, v), len(dval(result, v)), u) == {edge_count('u', 'v')})))",
                  "forall(v, len(dval(result, v)) >= 0)",
                  "forall(v, implies(has(result, v), (0 <= v and v < len(transition_list)) or exists(u, 0, len(transition_list), CountT(transition_list[u], v, len(transition_list[u])) > 0)))"],
         after_call={'reverse_transition_list_core': dict(
             hints=["forall(k, 0, len(reversed_transition_list), CountP(reversed_transition_list, len(reversed_transition_list), reversed_transition_list[k]) > 0)"],
             use={0: ["forall(v, forall(u, L_CountP_mem(reversed_transition_list, len(reversed_transition_list), (v, u))))"]})},
         use_post={1: ["forall(v, forall(u, L_CountP_mem(reversed_transition_list, len(reversed_transition_list), (v, u))))"]})

# ---- reverse_dfs_recursive (work-list form): DESIGN A.4
R_ = "reversed_transitions"
V_ = "rec_reaching_states"
P_ = "pending_states"
AB = ARR(INT, BOOL)


def inl(x, L):
    return f"exists(m, 0, len({L}), {L}[m] == {x})"


def distinct(L):
    return f"forall(a, 0, len({L}), forall(b, 0, len({L}), implies(a < b, {L}[a] != {L}[b])))"


def closed_at(L, a, others):
    alt = " or ".join(inl(f"dval({R_}, {L}[{a}])[k]", o) for o in others)
    return f"(has({R_}, {L}[{a}]) and forall(k, 0, len(dval({R_}, {L}[{a}])), {alt}))"


KEYS_CLOSED = f"forall(v, implies(has({R_}, v), forall(k, 0, len(dval({R_}, v)), has({R_}, dval({R_}, v)[k]))))"
CR_CLOSED = f"forall(v, implies(has({R_}, v) and CR[v], forall(k, 0, len(dval({R_}, v)), CR[dval({R_}, v)[k]])))"
DFS_I = [f"len({V_}) >= len(reaching_states)", f"forall(a, 0, len(reaching_states), {V_}[a] == reaching_states[a])",
         distinct(V_), f"{inl('state', V_)} or {inl('state', P_)}",
         f"forall(a, 0, len({V_}), CR[{V_}[a]])", f"forall(b, 0, len({P_}), CR[{P_}[b]] and has({R_}, {P_}[b]))"]
IN_NB = f"forall(a, 0, len({V_}), 0 <= {V_}[a] and {V_}[a] < NB)"
contract('reverse_dfs_recursive',
         params={'state': INT, 'reversed_transitions': DIL, 'reaching_states': LI, 'CR': AB, 'NB': INT},
         ghost_params={'CR': 'CR', 'NB': 'len(transition_list)'}, result=LI,
         locals={'rec_reaching_states': LI, 'pending_states': LI, 'current_state': INT, 'next_state': INT},
         # NB bounds the key set of the reversed table: the search visits each key at most once, which is what makes it terminate
         requires=["NB >= 0", f"forall(v, implies(has({R_}, v), 0 <= v and v < NB))",
                   f"has({R_}, state)", KEYS_CLOSED, distinct('reaching_states'),
                   f"forall(a, 0, len(reaching_states), {closed_at('reaching_states', 'a', ['reaching_states'])})",
                   "CR[state]", CR_CLOSED, "forall(a, 0, len(reaching_states), CR[reaching_states[a]])",
                   f"forall(v, len(dval({R_}, v)) >= 0)"],
         ensures=["len(result) >= len(reaching_states)", "forall(a, 0, len(reaching_states), result[a] == reaching_states[a])",
                  inl('state', 'result'), distinct('result'),
                  f"forall(a, 0, len(result), {closed_at('result', 'a', ['result'])})",
                  "forall(a, 0, len(result), CR[result[a]])"],
         modifies={},
         # termination: (number of keys not yet visited, length of the work list) decreases lexicographically; the first
         # component is >= 0 by the pigeonhole lemma (the visited list is duplicate-free and lies in [0, NB))
         loops={0: dict(inv=DFS_I + [f"forall(a, 0, len({V_}), {closed_at(V_, 'a', [V_, P_])})", IN_NB],
                        ghost_decl=[('lv0', INT)], ghost_mod=[('lv0', INT)], ghost_pre=[('lv0', INT, f"len({V_})")],
                        hint_pre=[f"len({V_}) <= NB"], use_hint_pre={0: [f"L_pigeon({V_}, len({V_}), NB)"]},
                        decreases=[f"NB - len({V_})", f"len({P_})"]),
                1: dict(inv=DFS_I + [IN_NB, f"len({V_}) == lv0 + 1",
                                     f"forall(a, 0, len({V_}) - 1, {closed_at(V_, 'a', [V_, P_])})",
                                     f"len({V_}) >= 1", f"current_state == {V_}[len({V_}) - 1]", f"has({R_}, current_state)", "CR[current_state]",
                                     f"forall(k, 0, _i1, {inl(f'dval({R_}, current_state)[k]', V_)} or {inl(f'dval({R_}, current_state)[k]', P_)})"])})

# ---- reverse_dfs: sorted, each once, exactly the non-final states that can reach a final state
TLr = "transition_list"
SRF = "states_reaching_final"
NN = f"len({TLr})"
EDGE = lambda p, s_: f"exists(j, 0, len({TLr}[{p}]), tgt({TLr}[{p}][j]) == {s_})"
# CR is ANY predicate closed under the introduction rules of "can reach a final state"; the result is proved to lie inside
# it (soundness) and to be closed under predecessors together with the finals (completeness via M_LFP, lean/Meta.lean)
CR_INTRO = [f"forall(f, 0, len(final_states), CR[final_states[f]])",
            f"forall(u, 0, {NN}, forall(j, 0, len({TLr}[u]), implies(CR[tgt({TLr}[u][j])], CR[u])))"]
H1 = (f"forall(v, implies(has({R_}, v), forall(k, 0, len(dval({R_}, v)), 0 <= dval({R_}, v)[k] and dval({R_}, v)[k] < {NN} and {EDGE(f'dval({R_}, v)[k]', 'v')})))")
H2 = (f"forall(u, 0, {NN}, forall(j, 0, len({TLr}[u]), implies(has({R_}, tgt({TLr}[u][j])), {inl('u', f'dval({R_}, tgt({TLr}[u][j]))')})))")
H3 = f"forall(v, implies(0 <= v and v < {NN}, has({R_}, v)))"
H4 = f"forall(v, len(dval({R_}, v)) >= 0)"
CI_MEM_R = f"forall(v, forall(u, L_CountI_mem(dval({R_}, v), len(dval({R_}, v)), u)))"
CT_MEM = f"forall(v, forall(u, L_CountT_mem({TLr}[u], v, len({TLr}[u]))))"
CLOSED_V = f"forall(a, 0, len({SRF}), {closed_at(SRF, 'a', [SRF])})"
contract('reverse_dfs',
         params={'transition_list': TL, 'final_states': LI, 'CR': AB}, ghost_params={'CR': 'CR'}, result=LI,
         locals={'reversed_transitions': DIL, 'states_reaching_final': LI, 'final_state': INT, 'state': INT},
         requires=[f"forall(u, 0, {NN}, forall(j, 0, len({TLr}[u]), 0 <= tgt({TLr}[u][j]) and tgt({TLr}[u][j]) < {NN}))",
                   f"forall(f, 0, len(final_states), 0 <= final_states[f] and final_states[f] < {NN})"] + CR_INTRO,
         ensures=["forall(a, 0, len(result), forall(b, 0, len(result), implies(a < b, result[a] < result[b])))",          # ascending, each once
                  f"forall(a, 0, len(result), CR[result[a]] and 0 <= result[a] and result[a] < {NN} and not {inl('result[a]', 'final_states')})",   # sound
                  # complete (with M_LFP): result + finals is closed under predecessors
                  f"forall(s, forall(p, 0, {NN}, implies(({inl('s', 'result')} or {inl('s', 'final_states')}) and {EDGE('p', 's')}, {inl('p', 'result')} or {inl('p', 'final_states')})))"],
         modifies={},
         after_call={'reverse_transition_list': dict(
             hints=[H4, H3,
                    f"forall(v, forall(k, 0, len(dval({R_}, v)), CountI(dval({R_}, v), len(dval({R_}, v)), dval({R_}, v)[k]) > 0))",                 # 2: H1a
                    H1,                                                                                                                          # 3
                    f"forall(u, 0, {NN}, forall(j, 0, len({TLr}[u]), CountT({TLr}[u], tgt({TLr}[u][j]), len({TLr}[u])) > 0))",                      # 4: H2a
                    H2,                                                                                                                          # 5
                    f"forall(v, implies(has({R_}, v), 0 <= v and v < {NN}))"],                                                                  # 6: H5
             use={2: [CI_MEM_R], 3: [CT_MEM], 4: [CT_MEM], 5: [CI_MEM_R], 6: [CT_MEM]})},
         loops={0: dict(inv=[distinct(SRF), CLOSED_V, f"forall(a, 0, len({SRF}), CR[{SRF}[a]])",
                             f"forall(f, 0, _i, {inl('final_states[f]', SRF)})"])},
         comps={0: dict(type=LI, **{'is': f"FilterNotIn({SRF}, final_states, _n)"})},
         opaque_post=('CountI', 'FilterNotIn', 'CountT', 'CountP'),
         before_return=dict(
             hints=["len(FNL) >= 0",
                    f"forall(x, CountI(V_loop, len(V_loop), x) <= 1)",                                                        # 0
                    f"forall(x, CountI(FNL, len(FNL), x) == (0 if {inl('x', 'final_states')} else CountI(V_loop, len(V_loop), x)))",   # 1
                    f"len(result) == len(FNL) and forall(x, CountI(result, len(result), x) == CountI(FNL, len(FNL), x))",         # 2
                    f"forall(a, 0, len(result), CountI(result, len(result), result[a]) > 0)",                                   # 3
                    f"forall(a, 0, len(result), not {inl('result[a]', 'final_states')} and {inl('result[a]', 'V_loop')})",       # 4
                    f"forall(q, 0, len(V_loop), CountI(V_loop, len(V_loop), V_loop[q]) > 0)",                                    # 5
                    f"forall(q, 0, len(V_loop), {inl('V_loop[q]', 'final_states')} or CountI(result, len(result), V_loop[q]) > 0)",   # 6
                    f"forall(q, 0, len(V_loop), {inl('V_loop[q]', 'final_states')} or {inl('V_loop[q]', 'result')})",            # 7 -> 8
                    "forall(x, CountI(FNL, len(FNL), x) <= 1)",                                                                    # 9
                    distinct('FNL')],                                                                                              # 10
             use={0: ["L_FNI_len(V_loop, final_states, len(V_loop))"],
                  1: ["forall(x, L_distinct_le1(V_loop, len(V_loop), x))"],
                  2: ["forall(x, L_FNI_count(V_loop, final_states, len(V_loop), x))"],
                  4: ["forall(x, L_CountI_mem(result, len(result), x))"],
                  5: ["forall(x, L_CountI_mem(V_loop, len(V_loop), x))"],
                  6: ["forall(x, L_CountI_mem(V_loop, len(V_loop), x))"],
                  8: ["forall(x, L_CountI_mem(result, len(result), x))"],
                  10: ["L_le1_distinct(FNL, len(FNL))"]},
             isolate={8: [0, 3, 7], 9: [1, 2], 10: [0, 9]}),
         ghost_after_loop={0: [('V_loop', LI, SRF)]}, ghost_after_comp={0: 'FNL'})

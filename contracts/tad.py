"""Sidecar contracts for /repo/tad.py, keyed by qualified name and loop ordinal (DESIGN 2.4).
Nothing in /repo is annotated; the generator reads the real AST on every run."""
from pyvc.types import *
from .tad_spec import *

NODE = REF('Node')
FIELDS = {
    # Node
    'player': STR, 'idx': INT, 'reward': REAL, 'next_states': LREF(TRANS), 'is_final_node': BOOL,
    'reach_probability': REAL, 'expected_rewards': REAL, 'expected_rewards_min_reach': REAL,
    'expected_reach_min_rewards': REAL, 'num_states': INT, '__class__': INT,
    # Solver
    'state_list': SLT, 'threshold': REAL, 'floor': INT,
    # StochasticGame
    'rewards': LIST(REAL), 'players': LIST(STR), 'transition_list': LIST(LREF(TRANS)), 'final_states': LIST(INT),
    'prune_states': BOOL,
}
HEAPNAMES = {'RP': 'reach_probability', 'ER': 'expected_rewards', 'EMR': 'expected_rewards_min_reach',
             'ERM': 'expected_reach_min_rewards', 'NSF': 'next_states', 'CLS': '__class__', 'PLAYER': 'player',
             'IDX': 'idx', 'REWARD': 'reward', 'FINAL': 'is_final_node'}
NODE_HEAP = ['player', 'idx', 'reward', 'next_states', 'is_final_node', 'reach_probability', 'expected_rewards',
             'expected_rewards_min_reach', 'expected_reach_min_rewards', 'num_states', '__class__']
CLASS_TAGS = {'ProbabilisticNode': P_PROB, 'PlayerOne': P_ONE, 'PlayerTwo': P_TWO}
C = {}


def contract(name, **kw):
    kw.setdefault('heap', NODE_HEAP)
    kw.setdefault('lheap', [TRANS])
    kw.setdefault('heapnames', HEAPNAMES)
    kw.setdefault('props', [])
    C['tad.' + name] = kw


# successors of `self` point into state_list
SUCC_IN_RANGE = "forall(k, 0, len(self.next_states), 0 <= self.next_states[k][1] and self.next_states[k][1] < len(state_list))"
NS_ = "lcontent(self.next_states)"

# ------------------------------------------------------------------ reachability node steps (C01)
for cls, fn, acc, tag, slot in (('ProbabilisticNode', 'SumS', 'value', P_PROB, 'prob'), ('PlayerOne', 'MaxS', 'max_reach_prob', P_ONE, 'lab'),
                                ('PlayerTwo', 'MinS', 'min_reach_prob', P_TWO, 'lab')):
    contract(f'{cls}.value_iteration_reach',
             params={'self': REF(cls), 'state_list': SLT}, result=REAL, slot0=slot,
             locals={acc: REAL, 'next_state_reach_prob': REAL},
             requires=[SUCC_IN_RANGE, f"cls(self) == {tag}"],
             ensures=[f"result == BR(cls(self), {NS_}, state_list, RP)"],
             modifies={},
             loops={0: dict(inv=[f"{acc} == {fn}({NS_}, state_list, RP, _i)"])},
             props=['C01', 'C02', 'C06', 'C13'])
# the virtual method seen at call sites with a receiver of static type Node (dispatch on the class tag):
contract('Node.value_iteration_reach', virtual=True, implementations=['ProbabilisticNode', 'PlayerOne', 'PlayerTwo'],
         params={'self': NODE, 'state_list': SLT}, result=REAL,
         requires=[SUCC_IN_RANGE, "0 <= cls(self) and cls(self) <= 2"],
         ensures=[f"result == BR(cls(self), {NS_}, state_list, RP)"], modifies={})

# ------------------------------------------------------------------ strategy lists (C04, C05)
RP01 = "forall(t, 0, len(state_list), 0 <= RP[state_list[t]] and RP[state_list[t]] <= 1)"
contract('PlayerOne.get_best_strategies_reachability',
         params={'self': REF('PlayerOne'), 'state_list': SLT, 'floor': INT}, result=LSTR,
         locals={'max_probability': REAL, 'best_strategies': LSTR, 'next_state_reach_probability': REAL},
         requires=[SUCC_IN_RANGE, "floor == 6", RP01],
         ensures=[f"result == ArgEqR({NS_}, state_list, RP, len(self.next_states), MaxR({NS_}, state_list, RP, len(self.next_states)))"],
         modifies={}, use_axioms=['round6'],
         loops={0: dict(inv=[f"max_probability == MaxR({NS_}, state_list, RP, _i)",
                             f"best_strategies == ArgEqR({NS_}, state_list, RP, _i, max_probability)"],
                        use=[f"L_ArgEqR_empty_above({NS_}, state_list, RP, _i - 1, next_state_reach_probability)"])},
         props=['C04', 'C05', 'C13'])
contract('PlayerTwo.get_worst_strategies_reachability',
         params={'self': REF('PlayerTwo'), 'state_list': SLT, 'floor': INT}, result=LSTR,
         locals={'min_reach_prob': REAL, 'worst_strategies': LSTR, 'next_state_reach_probability': REAL},
         requires=[SUCC_IN_RANGE, "floor == 6", RP01],
         ensures=[f"result == ArgEqR({NS_}, state_list, RP, len(self.next_states), MinR({NS_}, state_list, RP, len(self.next_states)))"],
         modifies={}, use_axioms=['round6'],
         loops={0: dict(inv=[f"min_reach_prob == MinR({NS_}, state_list, RP, _i)",
                             f"worst_strategies == ArgEqR({NS_}, state_list, RP, _i, min_reach_prob)"],
                        use=[f"L_ArgEqR_empty_below({NS_}, state_list, RP, _i - 1, next_state_reach_probability)"])},
         props=['C04', 'C14', 'C13'])
ER_NONNEG = "forall(t, 0, len(state_list), ER[state_list[t]] >= 0)"
contract('PlayerOne.get_best_strategies_total_rewards',
         params={'self': REF('PlayerOne'), 'state_list': SLT, 'floor': INT}, result=LSTR,
         locals={'max_rewards': REAL, 'best_strategies': LSTR, 'next_state_expected_rewards': REAL},
         requires=[SUCC_IN_RANGE, "floor == 6", ER_NONNEG],
         ensures=[f"result == ArgEqR({NS_}, state_list, ER, len(self.next_states), MaxR({NS_}, state_list, ER, len(self.next_states)))"],
         modifies={}, use_axioms=['round6'],
         loops={0: dict(inv=[f"max_rewards == MaxR({NS_}, state_list, ER, _i)",
                             f"best_strategies == ArgEqR({NS_}, state_list, ER, _i, max_rewards)"],
                        use=[f"L_ArgEqR_empty_above({NS_}, state_list, ER, _i - 1, next_state_expected_rewards)"])},
         props=['C05', 'C13'])
contract('PlayerTwo.get_worst_strategies_total_rewards',
         params={'self': REF('PlayerTwo'), 'state_list': SLT, 'floor': INT}, result=LSTR,
         locals={'min_rewards': REAL, 'worst_strategies': LSTR, 'next_state_expected_rewards': REAL},
         requires=[SUCC_IN_RANGE, "floor == 6"],
         ensures=[f"implies(len(self.next_states) == 0, result == ArgEqR({NS_}, state_list, ER, 0, 0))",
                  f"implies(len(self.next_states) > 0, result == ArgEqR({NS_}, state_list, ER, len(self.next_states), MinR0({NS_}, state_list, ER, len(self.next_states))))"],
         modifies={}, use_axioms=['round6'],
         loops={0: dict(inv=[f"min_rewards == MinR0({NS_}, state_list, ER, _i)", "len(self.next_states) > 0",
                             f"worst_strategies == ArgEqR({NS_}, state_list, ER, _i, min_rewards)"],
                        use=[f"L_ArgEqR_empty_below0({NS_}, state_list, ER, _i - 1, next_state_expected_rewards)"])},
         props=['C05', 'C13'])

"""Sidecar contracts for /repo/tad.py, keyed by qualified name and loop ordinal (DESIGN 2.4).
Nothing in /repo is annotated; the generator reads the real AST on every run."""
from pyvc.ty import *
from .tad_spec import *
from . import rdfs_spec  # cardinality lemmas (L_pigeon, L_subset_card) used by the termination argument of prune_states

NODE = REF('Node')
FIELDS = {
    # Node
    'player': STR, 'idx': INT, 'reward': REAL, 'next_states': LREF(TRANS), 'is_final_node': BOOL,
    'reach_probability': REAL, 'expected_rewards': REAL, 'expected_rewards_min_reach': REAL,
    'expected_reach_min_rewards': REAL, 'num_states': INT, '__class__': INT,
    # Solver
    'state_list': SLT, 'threshold': REAL, 'floor': INT,
    # StochasticGame
    'rewards': LIST(REAL), 'players': LIST(STR), 'transition_list': LIST(LREF(TRANS)), 'final_states': LIST(INT),
    'prune_states': BOOL,
}
HEAPNAMES = {'RP': 'reach_probability', 'ER': 'expected_rewards', 'EMR': 'expected_rewards_min_reach',
             'ERM': 'expected_reach_min_rewards', 'NSF': 'next_states', 'CLS': '__class__', 'PLAYER': 'player',
             'IDX': 'idx', 'REWARD': 'reward', 'FINAL': 'is_final_node'}
NODE_HEAP = ['player', 'idx', 'reward', 'next_states', 'is_final_node', 'reach_probability', 'expected_rewards',
             'expected_rewards_min_reach', 'expected_reach_min_rewards', 'num_states', '__class__']
CLASS_TAGS = {'ProbabilisticNode': P_PROB, 'PlayerOne': P_ONE, 'PlayerTwo': P_TWO}
C = {}


def contract(name, **kw):
    kw.setdefault('heap', NODE_HEAP)
    kw.setdefault('lheap', [TRANS])
    kw.setdefault('heapnames', HEAPNAMES)
    kw.setdefault('props', [])
    C['tad.' + name] = kw


def VALID(SL):
    """valid_states (DESIGN 5.1): the node list represents a game: index = position, class tag matches the player
    string, successors are in range"""
    return [f"forall(a, 0, len({SL}), {SL}[a].idx == a)",
            f"forall(a, 0, len({SL}), 0 <= cls({SL}[a]) and cls({SL}[a]) <= 2)",
            f"forall(a, 0, len({SL}), iff({SL}[a].player == PLAYER_1, cls({SL}[a]) == 1))",
            f"forall(a, 0, len({SL}), iff({SL}[a].player == PLAYER_2, cls({SL}[a]) == 2))",
            f"forall(a, 0, len({SL}), iff({SL}[a].player == PROBABILISTIC, cls({SL}[a]) == 0))",
            f"forall(a, 0, len({SL}), forall(k, 0, len({SL}[a].next_states), 0 <= {SL}[a].next_states[k][1] and {SL}[a].next_states[k][1] < len({SL})))"]


# successors of `self` point into state_list
SUCC_IN_RANGE = "forall(k, 0, len(self.next_states), 0 <= self.next_states[k][1] and self.next_states[k][1] < len(state_list))"
NS_ = "lcontent(self.next_states)"

# ------------------------------------------------------------------ reachability node steps (C01)
for cls, fn, acc, tag, slot in (('ProbabilisticNode', 'SumS', 'value', P_PROB, 'prob'), ('PlayerOne', 'MaxS', 'max_reach_prob', P_ONE, 'lab'),
                                ('PlayerTwo', 'MinS', 'min_reach_prob', P_TWO, 'lab')):
    contract(f'{cls}.value_iteration_reach',
             params={'self': REF(cls), 'state_list': SLT}, result=REAL, slot0=slot,
             locals={acc: REAL, 'next_state_reach_prob': REAL},
             requires=[SUCC_IN_RANGE, f"cls(self) == {tag}"],
             ensures=[f"result == BR(cls(self), {NS_}, state_list, RP)"],
             modifies={},
             loops={0: dict(inv=[f"{acc} == {fn}({NS_}, state_list, RP, _i)"])},
             props=['C01', 'C02', 'C06', 'C13'])
# the virtual method seen at call sites with a receiver of static type Node (dispatch on the class tag):
contract('Node.value_iteration_reach', virtual=True, implementations=['ProbabilisticNode', 'PlayerOne', 'PlayerTwo'],
         params={'self': NODE, 'state_list': SLT}, result=REAL,
         requires=[SUCC_IN_RANGE, "0 <= cls(self) and cls(self) <= 2"],
         ensures=[f"result == BR(cls(self), {NS_}, state_list, RP)"], modifies={},
         props=['C01', 'C02', 'C04', 'C06', 'C13', 'C14'])

# Node.__eq__ (used by the repository's tests only): field-wise comparison, the transition lists by content; no side effect
contract('Node.__eq__', params={'self': NODE, 'other': NODE}, result=BOOL, requires=[], modifies={},
         ensures=["result == (self.player == other.player and self.idx == other.idx and self.reward == other.reward and "
                  "len(self.next_states) == len(other.next_states) and forall(k, 0, len(self.next_states), self.next_states[k] == other.next_states[k]) "
                  "and self.is_final_node == other.is_final_node)"],
         props=['C10'])

# ------------------------------------------------------------------ strategy lists (C04, C05)
RP01 = "forall(t, 0, len(state_list), 0 <= RP[state_list[t]] and RP[state_list[t]] <= 1)"
contract('PlayerOne.get_best_strategies_reachability',
         params={'self': REF('PlayerOne'), 'state_list': SLT, 'floor': INT}, result=LSTR,
         locals={'max_probability': REAL, 'best_strategies': LSTR, 'next_state_reach_probability': REAL},
         requires=[SUCC_IN_RANGE, "floor == 6", RP01, "cls(self) == 1"],
         ensures=[f"result == ArgEqR({NS_}, state_list, RP, len(self.next_states), MaxR({NS_}, state_list, RP, len(self.next_states)))"],
         modifies={}, use_axioms=['round6'],
         loops={0: dict(inv=[f"max_probability == MaxR({NS_}, state_list, RP, _i)",
                             f"best_strategies == ArgEqR({NS_}, state_list, RP, _i, max_probability)"],
                        use=[f"L_ArgEqR_empty_above({NS_}, state_list, RP, _i - 1, next_state_reach_probability)"])},
         props=['C04', 'C05', 'C13'])
contract('PlayerTwo.get_worst_strategies_reachability',
         params={'self': REF('PlayerTwo'), 'state_list': SLT, 'floor': INT}, result=LSTR,
         locals={'min_reach_prob': REAL, 'worst_strategies': LSTR, 'next_state_reach_probability': REAL},
         requires=[SUCC_IN_RANGE, "floor == 6", RP01, "cls(self) == 2"],
         ensures=[f"result == ArgEqR({NS_}, state_list, RP, len(self.next_states), MinR({NS_}, state_list, RP, len(self.next_states)))"],
         modifies={}, use_axioms=['round6'],
         loops={0: dict(inv=[f"min_reach_prob == MinR({NS_}, state_list, RP, _i)",
                             f"worst_strategies == ArgEqR({NS_}, state_list, RP, _i, min_reach_prob)"],
                        use=[f"L_ArgEqR_empty_below({NS_}, state_list, RP, _i - 1, next_state_reach_probability)"])},
         props=['C04', 'C14', 'C13'])
ER_NONNEG = "forall(t, 0, len(state_list), ER[state_list[t]] >= 0)"
contract('PlayerOne.get_best_strategies_total_rewards',
         params={'self': REF('PlayerOne'), 'state_list': SLT, 'floor': INT}, result=LSTR,
         locals={'max_rewards': REAL, 'best_strategies': LSTR, 'next_state_expected_rewards': REAL},
         requires=[SUCC_IN_RANGE, "floor == 6", ER_NONNEG, "cls(self) == 1"],
         ensures=[f"result == ArgEqR({NS_}, state_list, ER, len(self.next_states), MaxR({NS_}, state_list, ER, len(self.next_states)))"],
         modifies={}, use_axioms=['round6'],
         loops={0: dict(inv=[f"max_rewards == MaxR({NS_}, state_list, ER, _i)",
                             f"best_strategies == ArgEqR({NS_}, state_list, ER, _i, max_rewards)"],
                        use=[f"L_ArgEqR_empty_above({NS_}, state_list, ER, _i - 1, next_state_expected_rewards)"])},
         props=['C05', 'C13'])
contract('PlayerTwo.get_worst_strategies_total_rewards',
         params={'self': REF('PlayerTwo'), 'state_list': SLT, 'floor': INT}, result=LSTR,
         locals={'min_rewards': REAL, 'worst_strategies': LSTR, 'next_state_expected_rewards': REAL},
         requires=[SUCC_IN_RANGE, "floor == 6", "cls(self) == 2"],
         ensures=[f"implies(len(self.next_states) == 0, result == ArgEqR({NS_}, state_list, ER, 0, 0))",
                  f"implies(len(self.next_states) > 0, result == ArgEqR({NS_}, state_list, ER, len(self.next_states), MinR0({NS_}, state_list, ER, len(self.next_states))))"],
         modifies={}, use_axioms=['round6'],
         loops={0: dict(inv=[f"min_rewards == MinR0({NS_}, state_list, ER, _i)", "len(self.next_states) > 0",
                             f"worst_strategies == ArgEqR({NS_}, state_list, ER, _i, min_rewards)"],
                        use=[f"L_ArgEqR_empty_below0({NS_}, state_list, ER, _i - 1, next_state_expected_rewards)"])},
         props=['C05', 'C13'])

# ------------------------------------------------------------------ per-state strategy tables (C04, C05)
SL_ = "self.state_list"
OSTR = OPT(LSTR)
SOLVER_HEAP = NODE_HEAP + ['state_list', 'threshold', 'floor']


def NSOF(a):
    return f"lcontent({SL_}[{a}].next_states)"


def strat_clause(tbl, a, X, maxf, minf):
    return (f"(implies(cls({SL_}[{a}]) == 1, not isnone({tbl}[{a}]) and some({tbl}[{a}]) == ArgEqR({NSOF(a)}, {SL_}, {X}, len({SL_}[{a}].next_states), {maxf}({NSOF(a)}, {SL_}, {X}, len({SL_}[{a}].next_states))))"
            f" and implies(cls({SL_}[{a}]) == 2, not isnone({tbl}[{a}]) and {minf})"
            f" and implies(cls({SL_}[{a}]) == 0, isnone({tbl}[{a}])))")


def reach_clause(tbl, a):
    return strat_clause(tbl, a, 'RP', 'MaxR', f"some({tbl}[{a}]) == ArgEqR({NSOF(a)}, {SL_}, RP, len({SL_}[{a}].next_states), MinR({NSOF(a)}, {SL_}, RP, len({SL_}[{a}].next_states)))")


def rew_clause(tbl, a):
    n_ = f"len({SL_}[{a}].next_states)"
    return strat_clause(tbl, a, 'ER', 'MaxR', f"(implies({n_} == 0, some({tbl}[{a}]) == ArgEqR({NSOF(a)}, {SL_}, ER, 0, 0)) and implies({n_} > 0, some({tbl}[{a}]) == ArgEqR({NSOF(a)}, {SL_}, ER, {n_}, MinR0({NSOF(a)}, {SL_}, ER, {n_}))))")


RP01_S = f"forall(t, 0, len({SL_}), 0 <= RP[{SL_}[t]] and RP[{SL_}[t]] <= 1)"
ER_NONNEG_S = f"forall(t, 0, len({SL_}), ER[{SL_}[t]] >= 0)"
for nm, clause, extra in (('_get_reachability_strategies', reach_clause, [RP01_S]), ('_get_total_rewards_strategies', rew_clause, [ER_NONNEG_S])):
    contract(f'Solver.{nm}', heap=SOLVER_HEAP,
             params={'self': REF('Solver')}, result=LIST(OSTR),
             locals={'strategies': LIST(OSTR), 'state': NODE},
             requires=VALID(SL_) + ["self.floor == 6"] + extra,
             ensures=[f"len(result) == len({SL_})", f"forall(a, 0, len({SL_}), {clause('result', 'a')})"],
             modifies={},
             loops={0: dict(inv=[f"len(strategies) == len({SL_})",
                                 f"forall(a, 0, _i, {clause('strategies', 'a')})",
                                 f"forall(a, _i, len({SL_}), isnone(strategies[a]))"])},
             props=['C04', 'C05', 'C13'])

# ------------------------------------------------------------------ the reachability sweep (C01, C06, C14)  -- DESIGN A.3
S_ = "states_reaching_final"
AAR = ARR(INT, AR)


def node(q):
    return f"{SL_}[{S_}[{q}]]"


def BRq(q, X):
    return f"BR(cls({node(q)}), lcontent({node(q)}.next_states), {SL_}, {X})"


def wb(q, r):          # object r was written before position q of the sweep
    return f"exists(p, 0, {q}, {node('p')} == {r})"


PROPER_S = (f"forall(a, 0, len({SL_}), implies(cls({SL_}[a]) == 0, forall(k, 0, len({SL_}[a].next_states), prob(lcontent({SL_}[a].next_states)[k]) >= 0)"
            f" and SumP(lcontent({SL_}[a].next_states), len({SL_}[a].next_states)) == 1))")
c_inv = f"forall(t, 0, len({SL_}), 0 <= RP[{SL_}[t]] and RP[{SL_}[t]] <= VR[{SL_}[t]])"
d_inv = f"forall(q, 0, len({S_}), RP[{node('q')}] <= {BRq('q', 'RP')})"
frame_inv = f"forall(t, 0, len({SL_}), implies(not exists(p, 0, len({S_}), {S_}[p] == t), RP[{SL_}[t]] == old(RP[{SL_}[t]])))"


def resid(bound):
    return f"forall(q, 0, len({S_}), abs(RP[{node('q')}] - {BRq('q', 'RP')}) <= {bound})"


def mono_all(A, B):    # instances of the (proved) monotonicity lemma for every state of the sweep
    return f"forall(q, 0, len({S_}), L_BR_mono(cls({node('q')}), lcontent({node('q')}.next_states), {SL_}, {A}, {B}))"


VIR_POST = [c_inv, resid("self.threshold"), frame_inv, f"forall(t, 0, len({SL_}), ERM[{SL_}[t]] == RP[{SL_}[t]])"]
contract('Solver.value_iteration_reachability', heap=SOLVER_HEAP,
         params={'self': REF('Solver'), 'states_reaching_final': LIST(INT), 'prune_states': BOOL, 'VR': AR},
         ghost_params={'VR': 'VR'}, result=INT, opaque=('BR', 'MaxS', 'MinS', 'SumS', 'SumP'),
         locals={'diff': REAL, 'i': INT, 'max_diff': REAL, 'state_idx': INT, 'state': NODE, 'reach_probability_next': REAL, 'current_diff': REAL},
         requires=VALID(SL_) + [PROPER_S, f"len({SL_}) >= 1",
                                f"forall(a, 0, len({S_}), 0 <= {S_}[a] and {S_}[a] < len({SL_}))",
                                f"forall(a, 0, len({S_}), forall(b, 0, len({S_}), implies(a < b, {S_}[a] < {S_}[b])))",
                                "self.threshold > 0", "self.threshold < 1",
                                # VR: any vector that is a fixed point of the Bellman operator on the swept states and bounds RP
                                # (instantiated with the true value V* by C01; the obligations need nothing else about it)
                                f"forall(q, 0, len({S_}), VR[{node('q')}] == {BRq('q', 'VR')})",
                                f"forall(t, 0, len({SL_}), VR[{SL_}[t]] <= 1)",
                                c_inv, d_inv],
         ensures=VIR_POST + ["result >= 1", f"not (prune_states and RP[{SL_}[0]] == 0)"],
         raises=dict(exc=['ValueError'], when=[], ensures=VIR_POST + ["prune_states", f"RP[{SL_}[0]] == 0"]),
         modifies={'reach_probability': [f"exists(p, 0, len({S_}), {node('p')} == _o)"], 'expected_reach_min_rewards': [f"exists(p, 0, len({SL_}), {SL_}[p] == _o)"]},
         loops={
             0: dict(inv=[c_inv, d_inv, frame_inv, "diff >= 0", "i >= 0", "implies(i == 0, diff == 1)", f"implies(i >= 1, {resid('diff')})",
                          f"forall(r, implies(not exists(p, 0, len({S_}), {node('p')} == r), RP[r] == old(RP[r])))"],
                     ghost_decl=[('x_old', AR), ('snap', AAR)], ghost_mod=[('x_old', AR), ('snap', AAR)],
                     ghost_pre=[('x_old', AR, 'RP')], heap_mod=['reach_probability'],
                     use={6: [f"forall(q, 0, len({S_}), L_BR_lip(cls({node('q')}), lcontent({node('q')}.next_states), {SL_}, snap[q], RP, max_diff))"]}),
             1: dict(inv=[f"forall(r, implies(not {wb('_i1', 'r')}, RP[r] == x_old[r]))",
                          f"forall(q, 0, _i1, abs(RP[{node('q')}] - x_old[{node('q')}]) <= max_diff)",
                          f"forall(q, 0, _i1, RP[{node('q')}] == {BRq('q', 'snap[q]')})",
                          f"forall(q, 0, _i1, forall(r, snap[q][r] == (RP[r] if {wb('q', 'r')} else x_old[r])))",
                          c_inv, d_inv, "max_diff >= 0"],
                     ghost_mod=[('snap', AAR)], ghost_pre=[('snap', AAR, 'store(snap, _i1, RP)')],
                     ghost_post=[],
                     hint_pre=[f"forall(p, 0, len({S_}), {node('p')}.idx == {S_}[p])",
                               f"forall(p, 0, len({S_}), forall(p2, 0, len({S_}), implies(p < p2, {node('p')} != {node('p2')})))"],
                     use={4: [f"L_BR_mono(cls({node('_i1 - 1')}), lcontent({node('_i1 - 1')}.next_states), {SL_}, snap[_i1 - 1], VR)"],
                          5: [mono_all('snap[_i1 - 1]', 'RP')]}),
             2: dict(inv=[f"forall(t, 0, _i2, ERM[{SL_}[t]] == RP[{SL_}[t]])",
                          f"forall(r, implies(not exists(p, 0, len({SL_}), {SL_}[p] == r), ERM[r] == old(ERM[r])))"],
                     hint_pre=[f"forall(p, 0, len({SL_}), forall(p2, 0, len({SL_}), implies(p != p2, {SL_}[p] != {SL_}[p2])))"])},
         props=['C01', 'C02', 'C04', 'C06', 'C14', 'C13'])

# ------------------------------------------------------------------ conditioning (C03, C10, C02, C05, C06)
SUM_SELF = 'implies(len(self.next_states) > 0, SumP(lcontent(self.next_states), len(self.next_states)) == 1)'
OLDNS = "old(lcontent(self.next_states))"
NS_ALLOC = "0 <= self.next_states and self.next_states < alloc_l()"
PROBS_POS = "forall(k, 0, len(self.next_states), prob(lcontent(self.next_states)[k]) > 0)"
FA_ALL = f"FilterAlive({OLDNS}, state_list, RP, len({OLDNS}))"


def pruned_post(c):
    """content of self.next_states after conditioning on reachability, as the statement words it"""
    p1 = f"lcontent(self.next_states) == {FA_ALL}"
    pr = (f"(implies(len({FA_ALL}) == len({OLDNS}), self.next_states == old(self.next_states))"
          f" and implies(len({FA_ALL}) != len({OLDNS}), lcontent(self.next_states) == Renorm({FA_ALL}, AliveMass({OLDNS}, state_list, RP, len({OLDNS})), len({FA_ALL}))))")
    return {1: p1, 0: pr, None: f"(implies(cls(self) == 1, {p1}) and implies(cls(self) == 0, {pr}))"}[c]


PRUNE_COMMON_POST = ["forall(k, 0, len(self.next_states), RP[state_list[self.next_states[k][1]]] != 0)",        # no dead branch survives
                     "forall(k, 0, len(self.next_states), 0 <= self.next_states[k][1] and self.next_states[k][1] < len(state_list))",
                     NS_ALLOC]
contract('ProbabilisticNode.prune_paths', slot0='prob',
         params={'self': REF('ProbabilisticNode'), 'state_list': SLT},
         locals={'surviving_states': NS, 'surviving_probability': REAL, 'new_next_states': NS, 'new_state_probability': REAL, 'next_state': NODE},
         requires=[SUCC_IN_RANGE, "cls(self) == 0", PROBS_POS, NS_ALLOC, SUM_SELF],
         ensures=[pruned_post(0)] + PRUNE_COMMON_POST + [
             "implies(len(self.next_states) > 0, SumP(lcontent(self.next_states), len(self.next_states)) == 1 or self.next_states == old(self.next_states))",
             SUM_SELF,
             "forall(k, 0, len(self.next_states), prob(lcontent(self.next_states)[k]) > 0)"],
         modifies={'next_states': ['self'], '__lists__': []}, allocates=True,
         loops={0: dict(inv=[f"surviving_states == FilterAlive({NS_}, state_list, RP, _i)",
                             f"surviving_probability == AliveMass({NS_}, state_list, RP, _i)"]),
                1: dict(inv=["new_next_states == Renorm(surviving_states, surviving_probability, _i1)"],
                        hint_pre=["surviving_probability > 0"])},
         # after the first loop the survivors are the filtered list; lemma instances about it
         after_loop_use={0: [f"L_AliveMass_pos({NS_}, state_list, RP, len(self.next_states))", f"L_FA_len({NS_}, state_list, RP, len(self.next_states))"]},
         opaque_post=('FilterAlive', 'AliveMass', 'Renorm', 'SumP'),
         use_post={'all': [f"L_FA_len({OLDNS}, state_list, RP, len({OLDNS}))",
                           f"L_Renorm_len({FA_ALL}, AliveMass({OLDNS}, state_list, RP, len({OLDNS})), len({FA_ALL}))"],
                   1: [f"L_FA_alive({OLDNS}, state_list, RP, len({OLDNS}))", f"L_FA_full({OLDNS}, state_list, RP, len({OLDNS}))",
                       f"L_Renorm_at({FA_ALL}, AliveMass({OLDNS}, state_list, RP, len({OLDNS})), len({FA_ALL}))"],
                   2: [f"L_FA_from({OLDNS}, state_list, RP, len({OLDNS}))",
                       f"L_Renorm_at({FA_ALL}, AliveMass({OLDNS}, state_list, RP, len({OLDNS})), len({FA_ALL}))"],
                   4: [f"L_Renorm_sum({FA_ALL}, AliveMass({OLDNS}, state_list, RP, len({OLDNS})), len({FA_ALL}))",
                       f"L_FA_sum({OLDNS}, state_list, RP, len({OLDNS}))", f"L_AliveMass_pos({OLDNS}, state_list, RP, len({OLDNS}))",
                       f"L_SumP_ext(lcontent(self.next_states), Renorm({FA_ALL}, AliveMass({OLDNS}, state_list, RP, len({OLDNS})), len({FA_ALL})), len({FA_ALL}))"],
                   5: [f"L_Renorm_sum({FA_ALL}, AliveMass({OLDNS}, state_list, RP, len({OLDNS})), len({FA_ALL}))",
                       f"L_FA_sum({OLDNS}, state_list, RP, len({OLDNS}))", f"L_AliveMass_pos({OLDNS}, state_list, RP, len({OLDNS}))",
                       f"L_SumP_ext(lcontent(self.next_states), Renorm({FA_ALL}, AliveMass({OLDNS}, state_list, RP, len({OLDNS})), len({FA_ALL})), len({FA_ALL}))"],
                   6: [f"L_FA_from({OLDNS}, state_list, RP, len({OLDNS}))", f"L_AliveMass_pos({OLDNS}, state_list, RP, len({OLDNS}))",
                       f"L_Renorm_at({FA_ALL}, AliveMass({OLDNS}, state_list, RP, len({OLDNS})), len({FA_ALL}))"]},
         props=['C03', 'C02', 'C05', 'C06', 'C10', 'C13', 'C14'])
contract('PlayerOne.prune_paths', slot0='lab',
         params={'self': REF('PlayerOne'), 'state_list': SLT},
         requires=[SUCC_IN_RANGE, "cls(self) == 1", NS_ALLOC],
         ensures=[pruned_post(1)] + PRUNE_COMMON_POST,
         modifies={'next_states': ['self'], '__lists__': []}, allocates=True,
         comps={0: dict(type=NS, **{'is': f"FilterAlive({NS_}, state_list, RP, _n)"})},
         use_post={1: [f"L_FA_alive({OLDNS}, state_list, RP, len({OLDNS}))"], 2: [f"L_FA_from({OLDNS}, state_list, RP, len({OLDNS}))"]},
         props=['C03', 'C02', 'C05', 'C06', 'C10', 'C13', 'C14'])
contract('Node.prune_paths', virtual=True, implementations=['ProbabilisticNode', 'PlayerOne'],
         params={'self': NODE, 'state_list': SLT},
         requires=[SUCC_IN_RANGE, "cls(self) == 0 or cls(self) == 1", f"implies(cls(self) == 0, {PROBS_POS})", NS_ALLOC, f"implies(cls(self) == 0, {SUM_SELF})"],
         ensures=[pruned_post(None)] + PRUNE_COMMON_POST + ["implies(cls(self) == 0, forall(k, 0, len(self.next_states), prob(lcontent(self.next_states)[k]) > 0))",
                                                            f"implies(cls(self) == 0, {SUM_SELF})"],
         modifies={'next_states': ['self'], '__lists__': []}, allocates=True,
         props=['C03', 'C02', 'C05', 'C06', 'C10', 'C13', 'C14'])
contract('PlayerOne.prune_paths_reachability', slot0='lab',
         params={'self': REF('PlayerOne'), 'best_strategies': OPT(LSTR)},
         requires=["cls(self) == 1", "not isnone(best_strategies)", NS_ALLOC],
         ensures=[f"lcontent(self.next_states) == FilterLab({OLDNS}, some(best_strategies), len({OLDNS}))", NS_ALLOC],
         modifies={'next_states': ['self'], '__lists__': []}, allocates=True,
         comps={0: dict(type=NS, **{'is': f"FilterLab({NS_}, some(best_strategies), _n)"})},
         props=['C03', 'C02', 'C05', 'C10', 'C13'])


def HEAPWF(SL):
    return [f"forall(a, 0, len({SL}), 0 <= {SL}[a].next_states and {SL}[a].next_states < alloc_l())"]


def OLDNSOF(a):
    return f"old(lcontent({SL_}[{a}].next_states))"


def pruned_state(a):
    """content of state a's list after prune_paths, in terms of the entry state"""
    FA = f"FilterAlive({OLDNSOF(a)}, {SL_}, RP, len({OLDNSOF(a)}))"
    AM = f"AliveMass({OLDNSOF(a)}, {SL_}, RP, len({OLDNSOF(a)}))"
    return (f"(implies(cls({SL_}[{a}]) == 1, lcontent({SL_}[{a}].next_states) == {FA})"
            f" and implies(cls({SL_}[{a}]) == 0, implies(len({FA}) == len({OLDNSOF(a)}), {SL_}[{a}].next_states == old({SL_}[{a}].next_states))"
            f" and implies(len({FA}) != len({OLDNSOF(a)}), lcontent({SL_}[{a}].next_states) == Renorm({FA}, {AM}, len({FA}))))"
            f" and implies(cls({SL_}[{a}]) == 2, {SL_}[{a}].next_states == old({SL_}[{a}].next_states)))")


def nodead_state(a):
    return f"implies(cls({SL_}[{a}]) != 2, forall(k, 0, len({SL_}[{a}].next_states), RP[{SL_}[{SL_}[{a}].next_states[k][1]]] != 0))"


PROBS_POS_S = f"forall(a, 0, len({SL_}), implies(cls({SL_}[a]) == 0, forall(k, 0, len({SL_}[a].next_states), prob(lcontent({SL_}[a].next_states)[k]) > 0)))"
SUM1_S = f"forall(a, 0, len({SL_}), implies(cls({SL_}[a]) == 0 and len({SL_}[a].next_states) > 0, SumP(lcontent({SL_}[a].next_states), len({SL_}[a].next_states)) == 1))"
OLD_LISTS_SAME = "forall(r, implies(0 <= r and r < old(alloc_l()), lcontent(r) == old(lcontent(r))))"
contract('Solver.prune_paths', heap=SOLVER_HEAP,
         params={'self': REF('Solver')}, locals={'state': NODE},
         requires=VALID(SL_) + HEAPWF(SL_) + [PROBS_POS_S, SUM1_S],
         ensures=[f"forall(a, 0, len({SL_}), {pruned_state('a')})",
                  f"forall(a, 0, len({SL_}), {nodead_state('a')})"] + VALID(SL_) + HEAPWF(SL_) + [PROBS_POS_S, SUM1_S],
         modifies={'next_states': [f"exists(p, 0, len({SL_}), {SL_}[p] == _o)"], '__lists__': []}, allocates=True,
         loops={0: dict(inv=[f"forall(a, 0, _i, {pruned_state('a')})", f"forall(a, 0, _i, {nodead_state('a')})",
                             f"forall(a, _i, len({SL_}), {SL_}[a].next_states == old({SL_}[a].next_states))",
                             OLD_LISTS_SAME, "alloc_l() >= old(alloc_l())",
                             f"forall(r, implies(not exists(p, 0, len({SL_}), {SL_}[p] == r), NSF[r] == old(NSF[r])))"] + VALID(SL_) + HEAPWF(SL_) + [PROBS_POS_S, SUM1_S],
                        hint_pre=[f"forall(p, 0, len({SL_}), forall(p2, 0, len({SL_}), implies(p != p2, {SL_}[p] != {SL_}[p2])))"])},
         props=['C03', 'C02', 'C05', 'C06', 'C10', 'C13', 'C14'])

RS_ = "reachability_strategies"


def reach_pruned_state(a):
    return (f"(implies(cls({SL_}[{a}]) == 1, lcontent({SL_}[{a}].next_states) == FilterLab({OLDNSOF(a)}, some({RS_}[{a}]), len({OLDNSOF(a)})))"
            f" and implies(cls({SL_}[{a}]) != 1, {SL_}[{a}].next_states == old({SL_}[{a}].next_states)))")


OTHER_OBJS_SAME = f"forall(r, implies(not exists(p, 0, len({SL_}), {SL_}[p] == r), NSF[r] == old(NSF[r])))"
contract('Solver.prune_reachability', heap=SOLVER_HEAP,
         params={'self': REF('Solver'), 'reachability_strategies': LIST(OSTR)}, locals={'state': NODE, 'idx': INT},
         requires=VALID(SL_) + HEAPWF(SL_) + [f"len({RS_}) == len({SL_})", f"forall(a, 0, len({SL_}), implies(cls({SL_}[a]) == 1, not isnone({RS_}[a])))"],
         ensures=[f"forall(a, 0, len({SL_}), {reach_pruned_state('a')})"] + VALID(SL_) + HEAPWF(SL_),
         modifies={'next_states': [f"exists(p, 0, len({SL_}), {SL_}[p] == _o)"], '__lists__': []}, allocates=True,
         loops={0: dict(inv=[f"forall(a, 0, _i, {reach_pruned_state('a')})",
                             f"forall(a, _i, len({SL_}), {SL_}[a].next_states == old({SL_}[a].next_states))",
                             OLD_LISTS_SAME, "alloc_l() >= old(alloc_l())", OTHER_OBJS_SAME] + VALID(SL_) + HEAPWF(SL_),
                        hint_pre=[f"forall(p, 0, len({SL_}), forall(p2, 0, len({SL_}), implies(p != p2, {SL_}[p] != {SL_}[p2])))"],
                        use={10: [f"L_FL_from({OLDNSOF('_i - 1')}, some({RS_}[_i - 1]), len({OLDNSOF('_i - 1')}))"]})},
         props=['C03', 'C02', 'C05', 'C10', 'C13', 'C14'])

# ------------------------------------------------------------------ prune_states (C03 (iii), C06, C10)  -- DESIGN A.2
AB = ARR(INT, BOOL)
# F0 is ANY predicate on state numbers that satisfies the inversion rule of "reachable from state 0 in the graph at entry";
# the least such predicate is forward reachability (M_LFP_inv, lean/Meta.lean), so the postcondition holds for it.
F0_INV = (f"forall(a, 0, len({SL_}), implies(F0[a], a == 0 or exists(p, 0, len({SL_}), F0[p] and exists(k, 0, len({SL_}[p].next_states), {SL_}[p].next_states[k][1] == a))))")
PS_I1 = (f"forall(a, 0, len({SL_}), {SL_}[a].next_states == old({SL_}[a].next_states)"
         f" or (cls({SL_}[a]) != 1 and len({SL_}[a].next_states) == 0 and not F0[a]))")
PS_COMMON = [PS_I1, OLD_LISTS_SAME, "alloc_l() >= old(alloc_l())", OTHER_OBJS_SAME] + VALID(SL_) + HEAPWF(SL_) + [PROBS_POS_S, SUM1_S]
IN_REACH = lambda x: f"exists(m, 0, len(reachable_states), reachable_states[m] == {x})"
# termination of `while not finished` (C06): the list of unreachable states only grows (as a set) from one round to the next,
# because clearing transitions can only shrink the set of targets; it is strictly ascending, hence duplicate-free, and lies in
# [0, n), so its length is bounded by n (pigeonhole, L_pigeon) and grows strictly whenever the loop continues (L_subset_card)
NRS = "not_reachable_states"
NEWL = "not_reachable_states_new"
NSL = f"len({SL_})"
ASC = lambda L: f"forall(a, 0, len({L}), forall(b, 0, len({L}), implies(a < b, {L}[a] < {L}[b])))"
NO_EDGE_TO = lambda x: f"forall(p, 0, {NSL}, forall(k, 0, len({SL_}[p].next_states), {SL_}[p].next_states[k][1] != {x}))"
P1_EMPTY = lambda L: f"forall(w, 0, len({L}), implies(cls({SL_}[{L}[w]]) == 1, len({SL_}[{L}[w]].next_states) == 0))"
PS_T0 = [ASC(NRS), f"forall(w, 0, len({NRS}), 0 <= {NRS}[w] and {NRS}[w] < {NSL})",
         f"forall(w, 0, len({NRS}), {NRS}[w] != 0 and {NO_EDGE_TO(f'{NRS}[w]')})", P1_EMPTY(NRS)]
R_CONV1 = (f"forall(w, 0, len(reachable_states), reachable_states[w] == 0 or exists(a, 0, _i1, exists(k, 0, len({SL_}[a].next_states),"
           f" {SL_}[a].next_states[k][1] == reachable_states[w])))")
R_CONV2 = (f"forall(w, 0, len(reachable_states), reachable_states[w] == 0 or exists(a, 0, _i1, exists(k, 0, len({SL_}[a].next_states),"
           f" {SL_}[a].next_states[k][1] == reachable_states[w])) or exists(k, 0, _i2, state.next_states[k][1] == reachable_states[w]))")
PS_T3 = [ASC(NEWL), f"forall(w, 0, len({NEWL}), 0 <= {NEWL}[w] and {NEWL}[w] < _i3)",
         f"forall(w, 0, len({NRS}), implies({NRS}[w] < _i3, exists(j, 0, len({NEWL}), {NEWL}[j] == {NRS}[w])))",
         f"forall(w, 0, len({NRS}), not {IN_REACH(f'{NRS}[w]')})", P1_EMPTY(NRS),
         f"forall(a, 0, {NSL}, forall(k, 0, len({SL_}[a].next_states), {IN_REACH(f'{SL_}[a].next_states[k][1]')}))",
         f"forall(j, 0, len({NEWL}), not {IN_REACH(f'{NEWL}[j]')})", P1_EMPTY(NEWL)]
contract('Solver.prune_states', heap=SOLVER_HEAP,
         params={'self': REF('Solver'), 'F0': AB}, ghost_params={'F0': 'F0'},
         locals={'finished': BOOL, 'not_reachable_states': LIST(INT), 'reachable_states': LIST(INT), 'not_reachable_states_new': LIST(INT),
                 'state': NODE, 'idx': INT, 'next_state': TRANS},
         requires=VALID(SL_) + HEAPWF(SL_) + [F0_INV, f"len({SL_}) >= 1", PROBS_POS_S, SUM1_S],
         ensures=[PS_I1] + VALID(SL_) + HEAPWF(SL_) + [PROBS_POS_S, SUM1_S],
         modifies={'next_states': [f"exists(p, 0, len({SL_}), {SL_}[p] == _o)"], '__lists__': []}, allocates=True,
         loops={0: dict(inv=PS_COMMON + PS_T0,
                        hint_pre=[f"len({NRS}) <= {NSL}"], use_hint_pre={0: [f"L_pigeon({NRS}, len({NRS}), {NSL})"]},
                        ghost_decl=[('nrs0', LIST(INT))], ghost_mod=[('nrs0', LIST(INT))], ghost_pre=[('nrs0', LIST(INT), NRS)],
                        decreases=[f"{NSL} - len({NRS})"],
                        use_variant=[f"L_subset_card(nrs0, len(nrs0), {NRS}, len({NRS}), {NSL})"]),
                1: dict(inv=["len(reachable_states) >= 1", "reachable_states[0] == 0",
                             f"forall(a, 0, _i1, forall(k, 0, len({SL_}[a].next_states), {IN_REACH(f'{SL_}[a].next_states[k][1]')}))", R_CONV1]),
                2: dict(inv=["len(reachable_states) >= 1", "reachable_states[0] == 0",
                             f"forall(a, 0, _i1, forall(k, 0, len({SL_}[a].next_states), {IN_REACH(f'{SL_}[a].next_states[k][1]')}))",
                             f"forall(k, 0, _i2, {IN_REACH('state.next_states[k][1]')})", R_CONV2]),
                3: dict(inv=PS_COMMON + [IN_REACH('0'),
                                         f"forall(a, 0, len({SL_}), implies({SL_}[a].next_states == old({SL_}[a].next_states), forall(k, 0, len({OLDNSOF('a')}), {IN_REACH(f'tgt({OLDNSOF(chr(97))}[k])')})))"]
                        + PS_T3,
                        hint_pre=[f"forall(p, 0, len({SL_}), forall(p2, 0, len({SL_}), implies(p != p2, {SL_}[p] != {SL_}[p2])))"])},
         props=['C03', 'C02', 'C06', 'C10', 'C13', 'C14'])

# ------------------------------------------------------------------ validation (C09): dynamically typed values  -- DESIGN A.5
PV_FIELDS = {'next_states_pv': PYVAL}
NSV = "self.next_states"


def elem_ok(x, player="self.player", n="self.num_states"):
    """the documented shape of one transition"""
    return (f"(is_tuple({x}) and tlen({x}) == 2"
            f" and implies({player} == PLAYER_1 or {player} == PLAYER_2, is_str(slot0({x})))"
            f" and implies({player} == PROBABILISTIC, is_int(slot0({x})) or is_float(slot0({x})))"
            f" and is_int(slot1({x})) and 0 <= intval(slot1({x})) and intval(slot1({x})) < {n})")


NS_OK = f"(is_list({NSV}) and forall(k, 0, len(plist({NSV})), {elem_ok(f'plist({NSV})[k]')}))"
C09_FIELDS = dict(FIELDS)
C09_FIELDS['next_states'] = PYVAL          # in the validation functions the field holds an unvalidated Python value
C09_FIELDS['transition_list'] = LIST(PYVAL)
contract('Node.check_next_states', fields_override=C09_FIELDS, heap=['player', 'num_states', 'next_states'], lheap=[PYVAL],
         params={'self': NODE}, locals={'next_state': PYVAL},
         requires=[], modifies={},
         ensures=[NS_OK],
         raises=dict(exc=['ValueError'], when=[f"not {NS_OK}"], ensures=[]),
         loops={0: dict(inv=[f"is_list({NSV})", f"forall(k, 0, _i, {elem_ok(f'plist({NSV})[k]')})"])},
         props=['C09', 'C06', 'C12'])

SG = REF('StochasticGame')
SG_HEAP = ['rewards', 'players', 'transition_list', 'final_states', 'num_states', 'prune_states']
WF_TOP = ["len(self.transition_list) == self.num_states", "len(self.rewards) == self.num_states",
          "forall(k, 0, len(self.rewards), self.rewards[k] >= 0)",
          "len(self.final_states) > 0", "forall(k, 0, len(self.final_states), 0 <= self.final_states[k] and self.final_states[k] < self.num_states)",
          "forall(k, 0, len(self.players), self.players[k] == PLAYER_1 or self.players[k] == PLAYER_2 or self.players[k] == PROBABILISTIC)"]
WF_TOP_ALL = "(" + " and ".join(f"({c})" for c in WF_TOP) + ")"
contract('StochasticGame.check_game', fields_override=C09_FIELDS, heap=SG_HEAP, lheap=[PYVAL], minmax_empty_raises=True,
         params={'self': SG}, locals={'player': STR},
         requires=["self.num_states == len(self.players)"], modifies={},
         ensures=WF_TOP,
         raises=dict(exc=['ValueError'], when=[f"not {WF_TOP_ALL}"], ensures=[]),
         loops={0: dict(inv=["forall(k, 0, _i, self.players[k] == PLAYER_1 or self.players[k] == PLAYER_2 or self.players[k] == PROBABILISTIC)"])},
         props=['C09', 'C06', 'C12'])

NODE_INIT_PARAMS = dict([('self', NODE), ('player', STR), ('idx', INT), ('reward', REAL), ('next_states', PYVAL), ('num_states', INT), ('is_final_node', BOOL)])
NODE_FIELDS_SET = ["self.player == player", "self.idx == idx", "self.reward == reward", "self.next_states == next_states", "self.is_final_node == is_final_node",
                   "self.reach_probability == (1 if is_final_node else 0)", "self.expected_rewards == reward", "self.expected_rewards_min_reach == reward",
                   "self.expected_reach_min_rewards == 0", "self.num_states == num_states"]


def ns_ok_of(v, player, n):
    return f"(is_list({v}) and forall(k, 0, len(plist({v})), {elem_ok(f'plist({v})[k]', player, n)}))"


NODE_MOD = {f: ['self'] for f in NODE_HEAP if f != '__class__'}
for cls in ('Node', 'ProbabilisticNode', 'PlayerOne', 'PlayerTwo'):
    contract(f'{cls}.__init__', constructor=True, fields_override=C09_FIELDS, heap=NODE_HEAP, lheap=[PYVAL],
             params=dict(NODE_INIT_PARAMS, self=REF(cls) if cls != 'Node' else NODE),
             defaults={'is_final_node': 'False'} if cls in ('PlayerOne', 'PlayerTwo') else {},
             requires=[], modifies=NODE_MOD,
             ensures=NODE_FIELDS_SET + [ns_ok_of('next_states', 'player', 'num_states')],
             raises=dict(exc=['ValueError'], when=[f"not {ns_ok_of('next_states', 'player', 'num_states')}"], ensures=[]),
             props=['C09', 'C06', 'C01', 'C12'])

TLV = "self.transition_list"


def state_ok(k):
    return f"(truthy({TLV}[{k}]) and {ns_ok_of(f'{TLV}[{k}]', f'self.players[{k}]', 'self.num_states')})"


ALL_STATES_OK = f"forall(q, 0, self.num_states, {state_ok('q')})"


def node_of_state(L, k):
    return (f"({L}[{k}].idx == {k} and {L}[{k}].player == self.players[{k}] and {L}[{k}].reward == self.rewards[{k}] and {L}[{k}].next_states == {TLV}[{k}]"
            f" and {L}[{k}].num_states == self.num_states and {L}[{k}].is_final_node == exists(f, 0, len(self.final_states), self.final_states[f] == {k})"
            f" and {L}[{k}].reach_probability == (1 if {L}[{k}].is_final_node else 0)"
            f" and iff({L}[{k}].player == PLAYER_1, cls({L}[{k}]) == 1) and iff({L}[{k}].player == PLAYER_2, cls({L}[{k}]) == 2) and iff({L}[{k}].player == PROBABILISTIC, cls({L}[{k}]) == 0))")


contract('StochasticGame.init_states', fields_override=C09_FIELDS, heap=SG_HEAP + NODE_HEAP, lheap=[PYVAL],
         constructors={'PlayerOne': 'tad.PlayerOne.__init__', 'PlayerTwo': 'tad.PlayerTwo.__init__', 'ProbabilisticNode': 'tad.ProbabilisticNode.__init__'},
         params={'self': SG}, result=SLT,
         locals={'state_list': SLT, 'idx': INT, 'player': STR, 'transitions': PYVAL, 'reward': REAL, '__hoisted': NODE},
         requires=WF_TOP + ["self.num_states == len(self.players)", "0 <= self and self < alloc_o()"],
         ensures=["len(result) == self.num_states", ALL_STATES_OK, f"forall(q, 0, self.num_states, {node_of_state('result', 'q')})",
                  "forall(q, 0, len(result), result[q] >= old(alloc_o()))"],
         raises=dict(exc=['ValueError'], when=[f"not {ALL_STATES_OK}"], ensures=[]),
         modifies={f: ["_o >= alloc_o()"] for f in NODE_HEAP},
         loops={0: dict(inv=["len(state_list) <= _i", f"implies(len(state_list) == _i, forall(q, 0, _i, {state_ok('q')} and {node_of_state('state_list', 'q')}))",
                             f"implies(len(state_list) < _i, exists(q, 0, _i, not truthy({TLV}[q])))",
                             "forall(q, 0, len(state_list), state_list[q] >= old(alloc_o()) and state_list[q] < alloc_o())", "alloc_o() >= old(alloc_o())"]
                        + [f"forall(o, implies(o < old(alloc_o()), {h}[o] == old({h}[o])))" for h in ('PLAYER', 'IDX', 'RP', 'CLS')])},
         props=['C09', 'C06', 'C10', 'C12'])

# ---- StochasticGame.__init__ and the validating prefix of solve (C09): a malformed description never reaches the solver
contract('StochasticGame.__init__', constructor=True, fields_override=C09_FIELDS, heap=SG_HEAP, lheap=[PYVAL],
         params=dict([('self', SG), ('rewards', LIST(REAL)), ('players', LIST(STR)), ('transition_list', LIST(PYVAL)), ('final_states', LIST(INT)), ('prune_states', BOOL)]),
         defaults={'prune_states': 'True'}, requires=[], modifies={f: ['self'] for f in SG_HEAP},
         ensures=["self.rewards == rewards", "self.players == players", "self.transition_list == transition_list", "self.final_states == final_states",
                  "self.num_states == len(players)", "self.prune_states == prune_states"],
         list_eq_structural=True,
         props=['C09', 'C12'])
# count_transitions runs BEFORE any validation (run_games calls it right after the constructor): the entries of the
# transition list are arbitrary Python values; it must not raise on any of them (no `raises` clause: every exception is an
# unproved obligation) and must not touch the description
contract('StochasticGame.count_transitions', fields_override=C09_FIELDS, heap=SG_HEAP, lheap=[PYVAL],
         params={'self': SG}, result=INT, locals={'transitions': INT, 'state_transitions': PYVAL},
         requires=[], modifies={}, ensures=["result >= 0"],
         loops={0: dict(inv=["transitions >= 0"])},
         props=['C09', 'C12', 'C10'])
WF_ALL = WF_TOP + [ALL_STATES_OK]
contract('StochasticGame.solve', fields_override=C09_FIELDS, heap=SG_HEAP + NODE_HEAP, lheap=[PYVAL],
         params={'self': SG}, locals={'state_list': SLT},
         requires=["self.num_states == len(self.players)", "0 <= self and self < alloc_o()"],
         cut_before_assign='solver',
         ensures_at_cut=WF_ALL + [f"forall(q, 0, self.num_states, {node_of_state('state_list', 'q')})", "len(state_list) == self.num_states"],
         raises=dict(exc=['ValueError'], when=["not (" + " and ".join(f"({c})" for c in WF_ALL) + ")"], ensures=[]),
         modifies={f: ["_o >= alloc_o()"] for f in NODE_HEAP},
         props=['C09', 'C12'])

# ------------------------------------------------------------------ reward node steps (C02, C14)
R3 = TUP(REAL, REAL, REAL)
ER_NN = "forall(t, 0, len(state_list), ER[state_list[t]] >= 0)"
LEN_ = "len(self.next_states)"


def at_succ(X, k):           # X of the successor at position k of self's list
    return f"{X}[state_list[lcontent(self.next_states)[{k}][1]]]"


contract('ProbabilisticNode.value_iteration_rewards', slot0='prob',
         params={'self': REF('ProbabilisticNode'), 'state_list': SLT}, result=R3,
         locals={'value': REAL, 'expected_rewards_min_reach': REAL, 'expected_reach_min_rewards': REAL, '_next_state': NODE},
         requires=[SUCC_IN_RANGE, "cls(self) == 0"], modifies={},
         ensures=[f"result[0] == BW(cls(self), self.reward, {NS_}, state_list, ER)",
                  f"implies({LEN_} == 0, result[1] == 0 and result[2] == 0)",
                  f"implies({LEN_} > 0, result[1] == self.reward + SumS({NS_}, state_list, EMR, {LEN_}) and result[2] == SumS({NS_}, state_list, ERM, {LEN_}))"],
         loops={0: dict(inv=[f"value == self.reward + SumS({NS_}, state_list, ER, _i)", f"expected_rewards_min_reach == self.reward + SumS({NS_}, state_list, EMR, _i)",
                             f"expected_reach_min_rewards == SumS({NS_}, state_list, ERM, _i)", f"{LEN_} > 0"])},
         props=['C02', 'C14', 'C05', 'C06', 'C13'])
contract('PlayerOne.value_iteration_rewards', slot0='lab',
         params={'self': REF('PlayerOne'), 'state_list': SLT}, result=R3,
         locals={'max_rewards': REAL, 'next_state_exp_rewards': REAL, 'max_next_state': TRANS, 'next_state': TRANS,
                 'expected_rewards_min_reach': REAL, 'expected_reach_min_rewards': REAL},
         requires=[SUCC_IN_RANGE, "cls(self) == 1", ER_NN], modifies={},
         ensures=[f"result[0] == BW(cls(self), self.reward, {NS_}, state_list, ER)",
                  f"implies({LEN_} == 0, result[1] == 0 and result[2] == 0)",
                  # the diagnostics follow the LAST successor attaining the maximal expected reward
                  f"implies({LEN_} > 0, result[1] == self.reward + {at_succ('EMR', f'LastMax({NS_}, state_list, ER, {LEN_})')} and result[2] == {at_succ('ERM', f'LastMax({NS_}, state_list, ER, {LEN_})')})"],
         loops={0: dict(inv=[f"max_rewards == MaxS({NS_}, state_list, ER, _i)", f"{LEN_} > 0",
                             f"implies(_i >= 1, bound(max_next_state) and 0 <= LastMax({NS_}, state_list, ER, _i) and LastMax({NS_}, state_list, ER, _i) < _i"
                             f" and max_next_state == lcontent(self.next_states)[LastMax({NS_}, state_list, ER, _i)])"])},
         props=['C02', 'C14', 'C05', 'C06', 'C13'])
STRAT_OF_SELF = "forall(q, 0, len(strategies), exists(k, 0, len(self.next_states), lab(lcontent(self.next_states)[k]) == strategies[q]))"
contract('PlayerTwo._expected_rewards_min_reach', slot0='lab',
         params={'self': REF('PlayerTwo'), 'state_list': SLT, 'strategies': LSTR}, result=REAL,
         locals={'first_n_state': TRANS, 'min_rewards': REAL, 'next_state_exp_rewards': REAL, 'next_state': TRANS},
         requires=[SUCC_IN_RANGE, "cls(self) == 2", STRAT_OF_SELF], modifies={},
         ensures=["implies(len(strategies) == 0, result == 0)",
                  # the cheapest (by the 'rewards under minimal reachability' vector) among the listed actions
                  f"implies(len(strategies) > 0, exists(k, 0, {LEN_}, lab(lcontent(self.next_states)[k]) in strategies and result == self.reward + {at_succ('EMR', 'k')}))",
                  f"implies(len(strategies) > 0, forall(k, 0, {LEN_}, implies(lab(lcontent(self.next_states)[k]) in strategies, result <= self.reward + {at_succ('EMR', 'k')})))"],
         comps={0: dict(type=NS, **{'is': f"FilterIn({NS_}, strategies, _n)"})},
         ghost_after_comp={0: 'FIN'},
         hint_after_comp={0: dict(hints=["len(FIN) > 0", f"exists(k, 0, {LEN_}, lab(lcontent(self.next_states)[k]) in strategies and FIN[0] == lcontent(self.next_states)[k])"],
                                  use={0: [f"L_FilterIn_first({NS_}, strategies, {LEN_})"], 1: [f"L_FilterIn_first({NS_}, strategies, {LEN_})"]})},
         loops={0: dict(inv=[f"min_rewards == MinSel({NS_}, state_list, EMR, strategies, _i, INIT)"], ghost_init=[('INIT', REAL, 'min_rewards')])},
         use_post={1: [f"L_MinSel_is_min({NS_}, state_list, EMR, strategies, {LEN_}, INIT)"], 2: [f"L_MinSel_is_min({NS_}, state_list, EMR, strategies, {LEN_}, INIT)"]},
         props=['C14', 'C02', 'C06', 'C13'])

WORST = f"ArgEqR({NS_}, state_list, RP, {LEN_}, MinR({NS_}, state_list, RP, {LEN_}))"
contract('PlayerTwo.value_iteration_rewards', slot0='lab',
         params={'self': REF('PlayerTwo'), 'state_list': SLT}, result=R3,
         locals={'reachability_strategies': LSTR, 'expected_rewards_min_reach': REAL, 'min_rewards': REAL, 'next_state_exp_rewards': REAL,
                 'min_next_state': TRANS, 'next_state': TRANS, 'expected_reach_min_rewards': REAL},
         requires=[SUCC_IN_RANGE, "cls(self) == 2", RP01], modifies={}, use_axioms=['round6'],
         ensures=[f"result[0] == BW(cls(self), self.reward, {NS_}, state_list, ER)",
                  f"implies({LEN_} == 0, result[1] == 0 and result[2] == 0)",
                  f"implies({LEN_} > 0, result[2] == {at_succ('ERM', f'LastMin({NS_}, state_list, ER, {LEN_})')})",
                  # 'rewards under minimal reachability': Player 2 plays its reachability strategy, the cheapest of several
                  f"implies({LEN_} > 0 and len({WORST}) == 0, result[1] == 0)",
                  f"implies({LEN_} > 0 and len({WORST}) > 0, exists(k, 0, {LEN_}, lab(lcontent(self.next_states)[k]) in {WORST} and result[1] == self.reward + {at_succ('EMR', 'k')}))",
                  f"implies({LEN_} > 0 and len({WORST}) > 0, forall(k, 0, {LEN_}, implies(lab(lcontent(self.next_states)[k]) in {WORST}, result[1] <= self.reward + {at_succ('EMR', 'k')})))"],
         after_call={'PlayerTwo.get_worst_strategies_reachability': dict(
             hints=["forall(q, 0, len(reachability_strategies), exists(k, 0, len(self.next_states), lab(lcontent(self.next_states)[k]) == reachability_strategies[q]))"],
             use={0: [f"L_ArgEqR_from({NS_}, state_list, RP, {LEN_}, MinR({NS_}, state_list, RP, {LEN_}))"]})},
         loops={0: dict(inv=[f"min_rewards == MinW0({NS_}, state_list, ER, _i)", f"{LEN_} > 0",
                             f"implies(_i >= 1, bound(min_next_state) and 0 <= LastMin({NS_}, state_list, ER, _i) and LastMin({NS_}, state_list, ER, _i) < _i"
                             f" and min_next_state == lcontent(self.next_states)[LastMin({NS_}, state_list, ER, _i)])"])},
         props=['C02', 'C14', 'C05', 'C06', 'C13'])
contract('Node.value_iteration_rewards', virtual=True, implementations=['ProbabilisticNode', 'PlayerOne', 'PlayerTwo'],
         params={'self': NODE, 'state_list': SLT}, result=R3,
         requires=[SUCC_IN_RANGE, "0 <= cls(self) and cls(self) <= 2", RP01, ER_NN], modifies={},
         ensures=[f"result[0] == BW(cls(self), self.reward, {NS_}, state_list, ER)"],
         props=['C02', 'C14', 'C05', 'C06', 'C13'])

# ------------------------------------------------------------------ the reward sweep (C02, C14, C06)
def nodeq(q):
    return f"{SL_}[{q}]"


def BWq(q, X):
    return f"BW(cls({nodeq(q)}), {nodeq(q)}.reward, lcontent({nodeq(q)}.next_states), {SL_}, {X})"


def wbw(q, r):
    return f"exists(p, 0, {q}, {nodeq('p')} == {r})"


PROPERW_S = (f"forall(a, 0, len({SL_}), implies(cls({SL_}[a]) == 0 and len({SL_}[a].next_states) > 0, forall(k, 0, len({SL_}[a].next_states), prob(lcontent({SL_}[a].next_states)[k]) >= 0)"
             f" and SumP(lcontent({SL_}[a].next_states), len({SL_}[a].next_states)) == 1))")
ENN = f"forall(t, 0, len({SL_}), ER[{SL_}[t]] >= 0)"
REWNN = f"forall(t, 0, len({SL_}), {SL_}[t].reward >= 0)"


def residW(bound):
    return f"forall(q, 0, len({SL_}), abs(ER[{nodeq('q')}] - {BWq('q', 'ER')}) <= {bound})"


W_FRAME = [f"forall(r, implies(not exists(p, 0, len({SL_}), {SL_}[p] == r), {h}[r] == old({h}[r])))" for h in ('ER', 'EMR', 'ERM')]


# the stopping rule covers ALL THREE vectors (C14: the two diagnostic vectors are iterated to the same tolerance as the rewards):
# the last sweep changed none of them by more than the bound at any state
def LAST_SWEEP(bound):
    return (f"implies(i >= 1, forall(q, 0, len({SL_}), abs(ER[{nodeq('q')}] - x_old[{nodeq('q')}]) <= {bound}"
            f" and abs(EMR[{nodeq('q')}] - emr_old[{nodeq('q')}]) <= {bound} and abs(ERM[{nodeq('q')}] - erm_old[{nodeq('q')}]) <= {bound}))")


contract('Solver.value_iteration_total_rewards', heap=SOLVER_HEAP,
         params={'self': REF('Solver')}, result=INT, opaque=('BW', 'MaxS', 'MinS', 'SumS', 'SumP', 'MinW0', 'LastMax', 'LastMin'),
         locals={'diff': REAL, 'i': INT, 'max_diff': REAL, 'state': NODE, 'expected_rewards_next': REAL, 'expected_rewards_min_reach': REAL,
                 'expected_reach_min_rewards': REAL, 'current_diff_expected_rew': REAL, 'current_diff_min_reach': REAL, 'current_diff_reach': REAL, 'current_diff': REAL},
         requires=VALID(SL_) + [PROPERW_S, REWNN, RP01_S, ENN, "self.threshold > 0", "self.threshold < 1"],
         ensures=[residW("self.threshold"), ENN, "result >= 1"],
         modifies={f: [f"exists(p, 0, len({SL_}), {SL_}[p] == _o)"] for f in ('expected_rewards', 'expected_rewards_min_reach', 'expected_reach_min_rewards')},
         loops={
             0: dict(inv=[ENN, "diff >= 0", "i >= 0", "implies(i == 0, diff == 1)", f"implies(i >= 1, {residW('diff')})"] + W_FRAME + [LAST_SWEEP('diff')],
                     ghost_decl=[('x_old', AR), ('snap', AAR), ('emr_old', AR), ('erm_old', AR)], ghost_mod=[('x_old', AR), ('snap', AAR), ('emr_old', AR), ('erm_old', AR)],
                     ghost_pre=[('x_old', AR, 'ER'), ('emr_old', AR, 'EMR'), ('erm_old', AR, 'ERM')],
                     heap_mod=['expected_rewards', 'expected_rewards_min_reach', 'expected_reach_min_rewards'],
                     use={4: [f"forall(q, 0, len({SL_}), L_BW_lip(cls({nodeq('q')}), {nodeq('q')}.reward, lcontent({nodeq('q')}.next_states), {SL_}, snap[q], ER, max_diff))"]}),
             1: dict(inv=[f"forall(r, implies(not {wbw('_i1', 'r')}, ER[r] == x_old[r]))",
                          f"forall(q, 0, _i1, abs(ER[{nodeq('q')}] - x_old[{nodeq('q')}]) <= max_diff)",
                          f"forall(q, 0, _i1, ER[{nodeq('q')}] == {BWq('q', 'snap[q]')})",
                          f"forall(q, 0, _i1, forall(r, snap[q][r] == (ER[r] if {wbw('q', 'r')} else x_old[r])))",
                          ENN, "max_diff >= 0"] + W_FRAME + [
                          f"forall(r, implies(not {wbw('_i1', 'r')}, EMR[r] == emr_old[r] and ERM[r] == erm_old[r]))",
                          f"forall(q, 0, _i1, abs(EMR[{nodeq('q')}] - emr_old[{nodeq('q')}]) <= max_diff and abs(ERM[{nodeq('q')}] - erm_old[{nodeq('q')}]) <= max_diff)"],
                     ghost_mod=[('snap', AAR)], ghost_pre=[('snap', AAR, 'store(snap, _i1, ER)')],
                     hint_pre=[f"forall(p, 0, len({SL_}), forall(p2, 0, len({SL_}), implies(p != p2, {SL_}[p] != {SL_}[p2])))"],
                     use={4: [f"L_BW_nonneg(cls({nodeq('_i1 - 1')}), {nodeq('_i1 - 1')}.reward, lcontent({nodeq('_i1 - 1')}.next_states), {SL_}, snap[_i1 - 1])"]})},
         before_return=dict(hints=[LAST_SWEEP('self.threshold')]),
         termination_unproved=True,
         props=['C02', 'C14', 'C05', 'C06', 'C13'])

# ------------------------------------------------------------------ solve_reachability (C01, C04, C06): the composed reachability phase
TLS = "transition_list"
FS = "final_states"


def isfinal(t):
    return f"exists(f, 0, len({FS}), {FS}[f] == {t})"


SR_REQ = VALID(SL_) + HEAPWF(SL_) + [
    PROPER_S, f"len({SL_}) >= 1", "self.threshold > 0", "self.threshold < 1", "self.floor == 6",
    f"len({TLS}) == len({SL_})", f"forall(k, 0, len({SL_}), {TLS}[k] == {SL_}[k].next_states)",          # the solver's nodes alias the caller's lists
    f"len({FS}) > 0", f"forall(f, 0, len({FS}), 0 <= {FS}[f] and {FS}[f] < len({SL_}))",
    f"forall(t, 0, len({SL_}), RP[{SL_}[t]] == (1 if {isfinal('t')} else 0))",
    f"forall(t, 0, len({SL_}), len({SL_}[t].next_states) >= 1)",
    # CR: any predicate closed under the rules 'finals can reach' / 'a predecessor of a state that can reach can reach'
    f"forall(f, 0, len({FS}), CR[{FS}[f]])",
    f"forall(u, 0, len({SL_}), forall(j, 0, len({SL_}[u].next_states), implies(CR[{SL_}[u].next_states[j][1]], CR[u])))",
    # VR: any vector in [0,1] that is 1 on the finals and a fixed point of the Bellman operator on the non-final states that can reach
    f"forall(t, 0, len({SL_}), 0 <= VR[{SL_}[t]] and VR[{SL_}[t]] <= 1)",
    f"forall(f, 0, len({FS}), VR[{SL_}[{FS}[f]]] == 1)",
    f"forall(t, 0, len({SL_}), implies(not {isfinal('t')} and CR[t], VR[{SL_}[t]] == BR(cls({SL_}[t]), lcontent({SL_}[t].next_states), {SL_}, VR)))"]
SR_POST = [f"forall(t, 0, len({SL_}), implies({isfinal('t')}, RP[{SL_}[t]] == 1))",                               # finals exactly 1
           f"forall(t, 0, len({SL_}), implies(not {isfinal('t')} and not CR[t], RP[{SL_}[t]] == 0))",              # no path: exactly 0
           f"forall(t, 0, len({SL_}), 0 <= RP[{SL_}[t]] and RP[{SL_}[t]] <= VR[{SL_}[t]])",                       # never exceeds the true value
           f"forall(t, 0, len({SL_}), implies(not {isfinal('t')}, abs(RP[{SL_}[t]] - BR(cls({SL_}[t]), lcontent({SL_}[t].next_states), {SL_}, RP)) <= self.threshold))",
           f"forall(t, 0, len({SL_}), ERM[{SL_}[t]] == RP[{SL_}[t]])"]
SRF_ = "states_reaching_final"
IN_S = lambda t: f"exists(p, 0, len({SRF_}), {SRF_}[p] == {t})"
contract('Solver.solve_reachability', heap=SOLVER_HEAP, opaque=('BR', 'MaxS', 'MinS', 'SumS', 'SumP', 'MaxR', 'MinR', 'ArgEqR'),
         params={'self': REF('Solver'), 'transition_list': LIST(LREF(TRANS)), 'final_states': LIST(INT), 'prune_states': BOOL, 'VR': AR, 'CR': AB},
         ghost_params={'VR': 'VR', 'CR': 'CR'}, result=TUP(LIST(OSTR), INT),
         locals={'states_reaching_final': LIST(INT), 'n_iterations_reach': INT, 'reachability_strategies': LIST(OSTR)},
         requires=SR_REQ,
         ensures=SR_POST + [f"len(result[0]) == len({SL_})", f"forall(a, 0, len({SL_}), {reach_clause('result[0]', 'a')})", f"not (prune_states and RP[{SL_}[0]] == 0)"],
         raises=dict(exc=['ValueError'], when=[], ensures=SR_POST + ["prune_states", f"RP[{SL_}[0]] == 0"]),
         modifies={'reach_probability': [f"exists(p, 0, len({SL_}), {SL_}[p] == _o)"], 'expected_reach_min_rewards': [f"exists(p, 0, len({SL_}), {SL_}[p] == _o)"]},
         after_call={
             'reverse_dfs': dict(
                 hints=[f"forall(t, 0, len({SL_}), forall(k, 0, len({SL_}[t].next_states), implies({IN_S(f'{SL_}[t].next_states[k][1]')} or {isfinal(f'{SL_}[t].next_states[k][1]')}, {IN_S('t')} or {isfinal('t')})))",
                        f"forall(q, 0, len({SRF_}), RP[{SL_}[{SRF_}[q]]] == 0)",
                        f"forall(q, 0, len({SRF_}), RP[{SL_}[{SRF_}[q]]] <= BR(cls({SL_}[{SRF_}[q]]), lcontent({SL_}[{SRF_}[q]].next_states), {SL_}, RP))"],
                 use={2: [f"forall(q, 0, len({SRF_}), L_BR_unit(cls({SL_}[{SRF_}[q]]), lcontent({SL_}[{SRF_}[q]].next_states), {SL_}, RP))"]}),
             'Solver.value_iteration_reachability': dict(
                 hints=[f"forall(t, 0, len({SL_}), implies(not {isfinal('t')} and not {IN_S('t')}, RP[{SL_}[t]] == 0))",
                        # a non-final state outside the search result has no successor inside result + finals (closure), so all its successors are 0
                        f"forall(t, 0, len({SL_}), implies(not {isfinal('t')} and not {IN_S('t')}, forall(k, 0, len({SL_}[t].next_states), RP[{SL_}[{SL_}[t].next_states[k][1]]] == 0)))",
                        f"forall(t, 0, len({SL_}), implies(not {isfinal('t')} and not {IN_S('t')}, BR(cls({SL_}[t]), lcontent({SL_}[t].next_states), {SL_}, RP) == 0))",
                        SR_POST[3]],
                 also_on_raise=True,
                 use={2: [f"forall(t, 0, len({SL_}), L_BR_zero(cls({SL_}[t]), lcontent({SL_}[t].next_states), {SL_}, RP))"]})},
         props=['C01', 'C04', 'C06', 'C13'])

# ------------------------------------------------------------------ the phases composed: Solver.__init__, prune_stochastich_game, solve_total_rewards, solve (typed suffix)
from z3 import ToInt, RealVal  # noqa
LOGB = Function('LOGB', RealSort(), RealSort(), RealSort())


def ext_log_base(s, st, e):  # noqa
    """math.log(x, base): defined for x > 0 and a base > 0 other than 1. ASSUMED about the float it returns, and only at the one
    point the solver uses: for x = the double 10**(-6) (exactly, as a rational) and base 10, CPython's result lies in [-6, -5)
    (it is -5.999999999999999 = log(x)/log(10) in doubles; the real logarithm of that double is a hair BELOW -6, so this is a
    statement about the library function, not about the real logarithm). The static obligation `solver-constants` evaluates the
    real source expression under CPython on every run."""
    if len(e.args) != 2 or e.keywords:
        raise Unsupported('math.log form (two positional arguments expected)')
    x, t = s.ev(e.args[0], st)
    b, tb = s.ev(e.args[1], st)
    x = s.coerce(x, t, REAL)[0]
    b = s.coerce(b, tb, REAL)[0]
    s.safe(st, 'log-domain', And(x > 0, b > 0, b != 1), e.lineno)
    from fractions import Fraction
    st.pc.append(Implies(And(x == RealVal(str(Fraction(10.0 ** -6))), b == 10), And(LOGB(x, b) >= -6, LOGB(x, b) < -5)))
    return LOGB(x, b), REAL


def ext_floor_(s, st, e):          # math.floor(x): the largest integer <= x
    x, t = s.ev(e.args[0], st)
    return ToInt(s.coerce(x, t, REAL)[0]), INT


contract('Solver.__init__', constructor=True, heap=SOLVER_HEAP, externals={'math.log': ext_log_base, 'math.floor': ext_floor_},
         params={'self': REF('Solver'), 'state_list': SLT, 'threshold': REAL}, defaults={'threshold': '10**(-6)'},
         requires=["threshold == 10**(-6)"], modifies={'state_list': ['self'], 'threshold': ['self'], 'floor': ['self']},
         # verified from the real body; the only assumption is the bracket of math.log(10**-6, 10) in ext_log_base
         ensures=["self.state_list == state_list", "self.threshold == threshold", "self.floor == 6"], list_eq_structural=True,
         props=['C01', 'C02', 'C04', 'C06', 'C10', 'C14'])


def alive_edge(p, a):
    return (f"exists(k, 0, len({SL_}[{p}].next_states), {SL_}[{p}].next_states[k][1] == {a}"
            f" and (cls({SL_}[{p}]) == 2 or RP[{SL_}[{SL_}[{p}].next_states[k][1]]] != 0))")


# F0: any predicate satisfying the inversion rule of "reachable from state 0" in the graph that prune_paths leaves (edges of
# Player 1 / probabilistic states only to successors with non-zero reachability)
F0_INV_PRUNED = f"forall(a, 0, len({SL_}), implies(F0[a], a == 0 or exists(p, 0, len({SL_}), F0[p] and {alive_edge('p', 'a')})))"


def pruned_or_cleared(a):
    return f"({pruned_state(a)} or (cls({SL_}[{a}]) != 1 and len({SL_}[{a}].next_states) == 0 and not F0[{a}]))"


contract('Solver.prune_stochastich_game', heap=SOLVER_HEAP,
         params={'self': REF('Solver'), 'F0': AB}, ghost_params={'F0': 'F0'},
         requires=VALID(SL_) + HEAPWF(SL_) + [PROBS_POS_S, SUM1_S, F0_INV_PRUNED, f"len({SL_}) >= 1"],
         ensures=[f"forall(a, 0, len({SL_}), {pruned_or_cleared('a')})"] + VALID(SL_) + HEAPWF(SL_) + [PROBS_POS_S, SUM1_S],
         modifies={'next_states': [f"exists(p, 0, len({SL_}), {SL_}[p] == _o)"], '__lists__': []}, allocates=True,
         after_call={'Solver.prune_paths': dict(
             hints=[f"forall(a, 0, len({SL_}), implies(F0[a], a == 0 or exists(p, 0, len({SL_}), F0[p] and exists(k, 0, len({SL_}[p].next_states), {SL_}[p].next_states[k][1] == a))))"],
             use={0: [f"forall(p, 0, len({SL_}), L_FA_keeps({OLDNSOF('p')}, {SL_}, RP, len({OLDNSOF('p')})))",
                      f"forall(p, 0, len({SL_}), L_Renorm_at(FilterAlive({OLDNSOF('p')}, {SL_}, RP, len({OLDNSOF('p')})), AliveMass({OLDNSOF('p')}, {SL_}, RP, len({OLDNSOF('p')})), len(FilterAlive({OLDNSOF('p')}, {SL_}, RP, len({OLDNSOF('p')})))))",
                      f"forall(p, 0, len({SL_}), L_Renorm_len(FilterAlive({OLDNSOF('p')}, {SL_}, RP, len({OLDNSOF('p')})), AliveMass({OLDNSOF('p')}, {SL_}, RP, len({OLDNSOF('p')})), len(FilterAlive({OLDNSOF('p')}, {SL_}, RP, len({OLDNSOF('p')})))))",
                      f"forall(p, 0, len({SL_}), L_FA_len({OLDNSOF('p')}, {SL_}, RP, len({OLDNSOF('p')})))"]})},
         opaque=('FilterAlive', 'AliveMass', 'Renorm', 'SumP'),
         props=['C03', 'C02', 'C06', 'C10', 'C13', 'C14'])
contract('Solver.solve_total_rewards', heap=SOLVER_HEAP,
         params={'self': REF('Solver')}, result=TUP(LIST(OSTR), INT),
         locals={'n_iterations_rew': INT, 'total_rewards_strategies': LIST(OSTR)},
         requires=VALID(SL_) + [PROPERW_S, REWNN, RP01_S, ENN, "self.threshold > 0", "self.threshold < 1", "self.floor == 6"],
         ensures=[residW("self.threshold"), ENN, f"len(result[0]) == len({SL_})", f"forall(a, 0, len({SL_}), {rew_clause('result[0]', 'a')})", "result[1] >= 1"],
         modifies={f: [f"exists(p, 0, len({SL_}), {SL_}[p] == _o)"] for f in ('expected_rewards', 'expected_rewards_min_reach', 'expected_reach_min_rewards')},
         opaque=('BW', 'MaxS', 'MinS', 'SumS', 'SumP', 'MinW0', 'MaxR', 'MinR', 'MinR0', 'ArgEqR'),
         props=['C02', 'C05', 'C06', 'C14', 'C13'])

# ------------------------------------------------------------------ StochasticGame.solve, typed suffix (from the statement after `state_list = self.init_states()`)
# The validating prefix is the C09 contract of the same function; what it establishes is stated here as the precondition (A-BRIDGE).
SV = "state_list"
TYPED_HEAP = sorted(set(SG_HEAP + SOLVER_HEAP))


def sv(txt):
    return txt.replace(SL_, SV)


def isfinal_s(t):
    return f"exists(f, 0, len(self.final_states), self.final_states[f] == {t})"


def OLDC(a):
    return f"old(lcontent({SV}[{a}].next_states))"


def cond_state(a, sigma):
    """the conditioned game at state a (C02/C03, pruning on): Player 1 keeps, in order, the transitions whose label is reachability-optimal
    and whose target has non-zero probability; a probabilistic state keeps, in order, the transitions into non-zero states, renormalised
    (untouched if none was dropped); Player 2 keeps everything"""
    FL = f"FilterLab({OLDC(a)}, some({sigma}[{a}]), len({OLDC(a)}))"
    FA1 = f"FilterAlive({FL}, {SV}, RP, len({FL}))"
    FA0 = f"FilterAlive({OLDC(a)}, {SV}, RP, len({OLDC(a)}))"
    AM0 = f"AliveMass({OLDC(a)}, {SV}, RP, len({OLDC(a)}))"
    return (f"(implies(cls({SV}[{a}]) == 1, lcontent({SV}[{a}].next_states) == {FA1})"
            f" and implies(cls({SV}[{a}]) == 0, implies(len({FA0}) == len({OLDC(a)}), {SV}[{a}].next_states == old({SV}[{a}].next_states))"
            f"     and implies(len({FA0}) != len({OLDC(a)}), lcontent({SV}[{a}].next_states) == Renorm({FA0}, {AM0}, len({FA0}))))"
            f" and implies(cls({SV}[{a}]) == 2, {SV}[{a}].next_states == old({SV}[{a}].next_states)))")


def restricted_state(a, sigma):
    """pruning off: only Player 1's transitions are restricted to its reachability strategy"""
    return (f"(implies(cls({SV}[{a}]) == 1, lcontent({SV}[{a}].next_states) == FilterLab({OLDC(a)}, some({sigma}[{a}]), len({OLDC(a)})))"
            f" and implies(cls({SV}[{a}]) != 1, {SV}[{a}].next_states == old({SV}[{a}].next_states)))")


R8T = TUP(LIST(OSTR), LIST(OSTR), LIST(REAL), LIST(REAL), INT, INT, LIST(REAL), LIST(REAL))
SOLVE_REQ = (["0 <= self and self < alloc_o()", f"forall(q, 0, len({SV}), 0 <= {SV}[q] and {SV}[q] < alloc_o() and {SV}[q] != self)"]
             + VALID(SV) + HEAPWF(SV)
             + [f"len({SV}) >= 1", f"len(self.transition_list) == len({SV})", f"forall(k, 0, len({SV}), self.transition_list[k] == {SV}[k].next_states)",
                f"len(self.rewards) == len({SV})", f"forall(k, 0, len({SV}), {SV}[k].reward == self.rewards[k] and {SV}[k].reward >= 0)",
                "len(self.final_states) > 0", f"forall(f, 0, len(self.final_states), 0 <= self.final_states[f] and self.final_states[f] < len({SV}))",
                f"forall(t, 0, len({SV}), RP[{SV}[t]] == (1 if {isfinal_s('t')} else 0))",
                f"forall(t, 0, len({SV}), ER[{SV}[t]] == {SV}[t].reward)",
                f"forall(t, 0, len({SV}), len({SV}[t].next_states) >= 1)",
                sv(PROBS_POS_S), sv(SUM1_S),
                f"forall(f, 0, len(self.final_states), CR[self.final_states[f]])",
                f"forall(u, 0, len({SV}), forall(j, 0, len({SV}[u].next_states), implies(CR[{SV}[u].next_states[j][1]], CR[u])))",
                f"forall(t, 0, len({SV}), 0 <= VR[{SV}[t]] and VR[{SV}[t]] <= 1)",
                f"forall(f, 0, len(self.final_states), VR[{SV}[self.final_states[f]]] == 1)",
                f"forall(t, 0, len({SV}), implies(not {isfinal_s('t')} and CR[t], VR[{SV}[t]] == BR(cls({SV}[t]), lcontent({SV}[t].next_states), {SV}, VR)))"])
SOLVE_REACH_POST = [f"forall(t, 0, len({SV}), implies({isfinal_s('t')}, RP[{SV}[t]] == 1))",
                    f"forall(t, 0, len({SV}), implies(not {isfinal_s('t')} and not CR[t], RP[{SV}[t]] == 0))",
                    f"forall(t, 0, len({SV}), 0 <= RP[{SV}[t]] and RP[{SV}[t]] <= VR[{SV}[t]])",
                    f"forall(t, 0, len({SV}), implies(not {isfinal_s('t')}, abs(RP[{SV}[t]] - BR(cls({SV}[t]), old(lcontent({SV}[t].next_states)), {SV}, RP)) <= 10**(-6)))"]
# F0: any predicate satisfying the inversion rule of "reachable from the initial state in the conditioned game" (the node lists after
# prune_reachability, with Player 1 / probabilistic edges only into states of non-zero probability): introduced as a hypothesis on the
# ghost where prune_stochastich_game is called
F0_AT_PRUNE = sv(F0_INV_PRUNED)
contract('StochasticGame.solve@typed', function='StochasticGame.solve', start_after_assign='state_list', suffix_locals={'state_list': SLT},
         heap=TYPED_HEAP, constructors={'Solver': 'tad.Solver.__init__'},
         params={'self': SG, 'VR': AR, 'CR': AB, 'F0': AB}, ghost_params={'VR': 'VR', 'CR': 'CR', 'F0': 'F0'}, result=R8T,
         locals={'solver': REF('Solver'), 'reachability_strategies': LIST(OSTR), 'n_iterations_reach': INT, 'probabilities': LIST(REAL), 'final_strategies': LIST(OSTR),
                 'n_iterations_rew': INT, 'rewards': LIST(REAL), 'expected_reach_min_rewards': LIST(REAL), 'expected_rewards_min_reach': LIST(REAL), 'state': NODE},
         requires=SOLVE_REQ,
         assume_at_call={'Solver.prune_stochastich_game': [F0_AT_PRUNE]},
         ensures=[f"len(result[0]) == len({SV}) and len(result[1]) == len({SV}) and len(result[2]) == len({SV}) and len(result[3]) == len({SV}) and len(result[6]) == len({SV}) and len(result[7]) == len({SV})",
                  f"forall(t, 0, len({SV}), result[3][t] == RP[{SV}[t]])"] + SOLVE_REACH_POST + [
                  f"forall(a, 0, len({SV}), {sv(reach_clause('result[1]', 'a')).replace('lcontent(' + SV + '[a].next_states)', OLDC('a')).replace('len(' + SV + '[a].next_states)', 'len(' + OLDC('a') + ')')})",
                  f"implies(self.prune_states, forall(a, 0, len({SV}), {cond_state('a', 'result[1]')} or (cls({SV}[a]) != 1 and len({SV}[a].next_states) == 0 and not F0[a])))",
                  f"implies(not self.prune_states, forall(a, 0, len({SV}), {restricted_state('a', 'result[1]')}))",
                  f"forall(t, 0, len({SV}), result[2][t] == ER[{SV}[t]] and ER[{SV}[t]] >= 0)",
                  sv(residW("10**(-6)")),
                  f"forall(a, 0, len({SV}), {sv(rew_clause('result[0]', 'a'))})",
                  "not (self.prune_states and RP[state_list[0]] == 0)",
                  # C05 inclusion: at every Player 1 state the final strategy is a subset of the reachability strategy
                  f"forall(a, 0, len({SV}), implies(cls({SV}[a]) == 1, forall(q, 0, len(some(result[0][a])), some(result[0][a])[q] in some(result[1][a]))))"],
         before_return=dict(
             hints=[  # 0, 1: the node lists at exit (as in the postcondition), 2: the final strategy table
                    f"implies(self.prune_states, forall(a, 0, len({SV}), {cond_state('a', 'reachability_strategies')} or (cls({SV}[a]) != 1 and len({SV}[a].next_states) == 0 and not F0[a])))",
                    f"implies(not self.prune_states, forall(a, 0, len({SV}), {restricted_state('a', 'reachability_strategies')}))",
                    f"forall(a, 0, len({SV}), {sv(rew_clause('final_strategies', 'a'))})",
                    # 3: labels of the final strategy are labels of the node list at exit
                    f"forall(a, 0, len({SV}), implies(cls({SV}[a]) == 1, forall(q, 0, len(some(final_strategies[a])), exists(k, 0, len({SV}[a].next_states), lab(lcontent({SV}[a].next_states)[k]) == some(final_strategies[a])[q]))))",
                    # 4: every transition of a Player 1 node list at exit carries a label of the reachability strategy
                    f"forall(a, 0, len({SV}), implies(cls({SV}[a]) == 1, forall(k, 0, len({SV}[a].next_states), lab(lcontent({SV}[a].next_states)[k]) in some(reachability_strategies[a]))))",
                    # 5: hence the inclusion
                    f"forall(a, 0, len({SV}), implies(cls({SV}[a]) == 1, forall(q, 0, len(some(final_strategies[a])), some(final_strategies[a])[q] in some(reachability_strategies[a]))))"],
             use={3: [f"forall(a, 0, len({SV}), L_ArgEqR_from(lcontent({SV}[a].next_states), {SV}, ER, len({SV}[a].next_states), MaxR(lcontent({SV}[a].next_states), {SV}, ER, len({SV}[a].next_states))))"],
                  4: [f"forall(a, 0, len({SV}), L_FL_from({OLDC('a')}, some(reachability_strategies[a]), len({OLDC('a')})))",
                      f"forall(a, 0, len({SV}), L_FA_from(FilterLab({OLDC('a')}, some(reachability_strategies[a]), len({OLDC('a')})), {SV}, RP, len(FilterLab({OLDC('a')}, some(reachability_strategies[a]), len({OLDC('a')})))))"]},
             isolate={3: [2], 4: [0, 1], 5: [3, 4]}),
         raises=dict(exc=['ValueError'], when=[], ensures=SOLVE_REACH_POST + ["self.prune_states", f"RP[{SV}[0]] == 0"]),
         modifies=dict([(f, [f"exists(p, 0, len({SV}), {SV}[p] == _o)"]) for f in ('next_states', 'reach_probability', 'expected_rewards', 'expected_rewards_min_reach', 'expected_reach_min_rewards')]
                       + [(f, ["_o >= alloc_o()"]) for f in ('state_list', 'threshold', 'floor')] + [('__lists__', [])]),
         allocates=True, list_eq_structural=True,
         opaque=('BR', 'BW', 'MaxS', 'MinS', 'SumS', 'SumP', 'MinW0', 'MaxR', 'MinR', 'MinR0', 'ArgEqR', 'FilterAlive', 'AliveMass', 'Renorm', 'FilterLab'),
         props=['C01', 'C02', 'C03', 'C04', 'C05', 'C06', 'C10', 'C13', 'C14'])

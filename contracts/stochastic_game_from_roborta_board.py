"""Sidecar contracts for /repo/stochastic_game_from_roborta_board.py (C08, C11): the second entry point of the generator.
`create_sg_from_board` emits the three games of a board GIVEN BY HAND through the same `write_robots`; what is proved is the
wiring: the shape it derives (length = number of rows, width = length of the first row), that the caller's three grids and
the three probabilities reach `write_robots` unchanged and in that function's parameter order (tile, robot, light -- the
function itself receives them as robot, light, tile), that write_robots' precondition (a rectangular board, arrows 0..3)
follows from a rectangular non-empty board."""
from pyvc.ty import *
from .roberta_generator import LLI, BOARD_OK

C = {}
M = 'stochastic_game_from_roborta_board.'


def contract(name, **kw):
    kw.setdefault('heap', [])
    kw.setdefault('lheap', [])
    kw.setdefault('props', [])
    C[M + name] = kw


# the largest entry of a non-empty matrix with non-empty rows (max of an empty sequence raises ValueError: a safety obligation)
contract('get_max_from_matrix',
         params={'matrix': LLI}, result=INT,
         requires=["len(matrix) >= 1", "forall(a, 0, len(matrix), len(matrix[a]) >= 1)"], modifies={},
         ensures=["forall(a, 0, len(matrix), forall(b, 0, len(matrix[a]), matrix[a][b] <= result))",
                  "exists(a, 0, len(matrix), exists(b, 0, len(matrix[a]), matrix[a][b] == result))"],
         props=['C08', 'C11'])

_SUB = lambda c: c.replace('length', 'len(moves)').replace('width', 'len(moves[0])')
RECT = [_SUB(c) for c in BOARD_OK]
contract('create_sg_from_board', float_mode='fp64',
         params={'moves': LLI, 'rewards': LLI, 'loose_tiles': LLI, 'prob_robot_break': FP, 'prob_light_break': FP, 'prob_tile_break': FP},
         locals={'length': INT, 'width': INT, 'max_reward': INT, 'max_move': INT, 'force_down': BOOL, 'file_name': STR},
         requires=RECT + [f"0 < {q} and {q} < 1" for q in ('prob_robot_break', 'prob_light_break', 'prob_tile_break')], ensures=[], modifies={},
         alias_for_asserts={'c_moves': 'moves', 'c_rewards': 'rewards', 'c_loose': 'loose_tiles',
                            'c_tb': 'prob_tile_break', 'c_rb': 'prob_robot_break', 'c_lb': 'prob_light_break'},
         call_asserts={'write_robots': ["length == len(c_moves)", "width == len(c_moves[0])", "moves == c_moves", "rewards == c_rewards", "loose_tiles == c_loose",
                                        "prob_tile_break == real(c_tb)", "prob_robot_break == real(c_rb)", "prob_light_break == real(c_lb)"]},
         # (what the file of a hand-made board is CALLED is not constrained: no property speaks about it -- C17 is about the
         # generator's own files, whose names carry a seed)
         calls_exactly=['get_max_from_matrix', 'get_max_from_matrix'] + ['prob_to_str'] * 3 + ['write_robots'],
         list_eq_structural=True,
         props=['C08', 'C11'])

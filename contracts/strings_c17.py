"""C17 injectivity of the generated file name, as a chain of string lemmas discharged by cvc5 (z3's sequence solver
times out on them). Shape of the name (proved by symbolic execution of main):
   "inputs/robot_" d1 "_w" d2 "_l" d3 "_r" d4 "_rb" d5 "_lb" d6 "_tb" d7 "_lt" d8 f ".py"
with d1..d4 = str(int >= 0) and d5..d8 = prob_to_str(k/100) = str(k): non-empty digit strings (A-STRINT + the 99 ground
obligations), f in {"", "_force_down"}. Stage i peels one field: from  d SEP d' T = e SEP e' U  it follows d = e and
d' T = e' U, which is the hypothesis of stage i+1; the last stage peels d8 and the flag. Each lemma query asserts the
negation of `hyp => concl` over free string constants (i.e. the universally quantified lemma).

COMPOSITION (`compose:nine-fields`): the nine-field statement itself -- all sixteen digit strings, both flags, equal names
=> every field and the flag are equal -- is discharged as ONE ground query whose only hypotheses besides the statement's
own are the eight lemmas INSTANTIATED at the terms of the chain. Lemma text and instance come from the same template
(`stage_formula` / `last_formula`), the instance being the template with the lemma's constants replaced by terms, so that
each hypothesis of the composition is syntactically an instance of a separately discharged lemma. The direct nine-field
query without the instances is beyond both string solvers (100 s); with them it is propositional up to associativity of
str.++ (0.4 s)."""
HEAD = '(set-logic ALL)\n(define-fun digs ((s String)) Bool (str.in_re s (re.+ (re.range "0" "9"))))\n(define-fun flag ((s String)) Bool (or (= s "") (= s "_force_down")))\n'
SEPS = ["_w", "_l", "_r", "_rb", "_lb", "_tb", "_lt"]
PREFIX = "inputs/robot_"


def _cat(*parts):
    parts = [p for p in parts if p != '""']
    return '(str.++ ' + ' '.join(parts) + ')' if len(parts) > 1 else parts[0]


def stage_formula(prefix, sep, d, e, d2, e2, T, U):
    """(hypothesis, conclusion) of one peel step over arbitrary string TERMS d, e, d2, e2, T, U."""
    pre = [f'"{prefix}"'] if prefix else []
    hyp = (f'(and (digs {d}) (digs {e}) (digs {d2}) (digs {e2}) '
           f'(= {_cat(*pre, d, chr(34) + sep + chr(34), d2, T)} {_cat(*pre, e, chr(34) + sep + chr(34), e2, U)}))')
    concl = f'(and (= {d} {e}) (= {_cat(d2, T)} {_cat(e2, U)}))'
    return hyp, concl


def last_formula(d, e, f, g):
    hyp = f'(and (digs {d}) (digs {e}) (flag {f}) (flag {g}) (= (str.++ {d} {f} ".py") (str.++ {e} {g} ".py")))'
    concl = f'(and (= {d} {e}) (= {f} {g}))'
    return hyp, concl


def _decl(names):
    return ' '.join(f'(declare-fun {n} () String)' for n in names) + '\n'


def stage(prefix, sep):
    hyp, concl = stage_formula(prefix, sep, 'd', 'e', 'd2', 'e2', 'T', 'U')
    return HEAD + _decl(['d', 'e', 'd2', 'e2', 'T', 'U']) + f'(assert {hyp})\n(assert (not {concl}))\n(check-sat)\n'


_h, _c = last_formula('d', 'e', 'f', 'g')
LAST = HEAD + _decl(['d', 'e', 'f', 'g']) + f'(assert {_h})\n(assert (not {_c}))\n(check-sat)\n'
# str(int) of a non-negative int is a non-empty digit string, and is injective (A-STRINT, stated over str.from_int)
STRINT = HEAD + ('(declare-fun x () Int) (declare-fun y () Int)\n(assert (and (>= x 0) (>= y 0)))\n'
                 '(assert (not (and (digs (str.from_int x)) (=> (= (str.from_int x) (str.from_int y)) (= x y)))))\n(check-sat)\n')
# the injectivity half of A-STRINT is within z3's reach (the digit-string half is not decided by either solver and stays assumed)
STRINT_INJ = ('(set-logic ALL)\n(declare-fun x () Int) (declare-fun y () Int)\n'
              '(assert (and (>= x 0) (>= y 0) (= (str.from_int x) (str.from_int y)) (not (= x y))))\n(check-sat)\n')


def _tail(V, fl, i):
    """text after field i+2 of the name: sep_{i+1} V[i+2] ... fl ".py" (as a list of terms)"""
    out = []
    for j in range(i + 1, 7):
        out += [f'"{SEPS[j]}"', V[j + 1]]
    return out + [fl, '".py"']


def compose():
    D = [f'd{i}' for i in range(1, 9)]
    E = [f'e{i}' for i in range(1, 9)]
    txt = HEAD + _decl(D + E + ['f', 'g'])
    # the statement's own hypotheses: digit strings, flags, equal names of the shape main was proved to produce
    txt += '(assert (and %s (flag f) (flag g)))\n' % ' '.join(f'(digs {v})' for v in D + E)
    name = lambda V, fl: _cat(f'"{PREFIX}"', V[0], *[t for j in range(7) for t in (f'"{SEPS[j]}"', V[j + 1])], fl, '".py"')
    txt += f'(assert (= {name(D, "f")} {name(E, "g")}))\n'
    # instances of the eight lemmas (same templates, constants replaced by the chain's terms)
    for i, sep in enumerate(SEPS):
        hyp, concl = stage_formula(PREFIX if i == 0 else "", sep, D[i], E[i], D[i + 1], E[i + 1], _cat(*_tail(D, 'f', i)), _cat(*_tail(E, 'g', i)))
        txt += f'(assert (=> {hyp} {concl}))\n'
    hyp, concl = last_formula(D[7], E[7], 'f', 'g')
    txt += f'(assert (=> {hyp} {concl}))\n'
    txt += '(assert (not (and %s (= f g))))\n(check-sat)\n' % ' '.join(f'(= {a} {b})' for a, b in zip(D, E))
    return txt


LEMMAS = ([(f'peel-{i}:{sep}', stage(PREFIX if i == 0 else "", sep)) for i, sep in enumerate(SEPS)] + [('peel-last:flag.py', LAST)]
          + [('compose:nine-fields', compose()), ('strint-injective', STRINT_INJ, 'z3')])

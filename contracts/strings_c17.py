"""C17 injectivity of the generated file name, as a chain of string lemmas discharged by cvc5 (z3's sequence solver
times out on them). Shape of the name (proved by symbolic execution of main):
   "inputs/robot_" d1 "_w" d2 "_l" d3 "_r" d4 "_rb" d5 "_lb" d6 "_tb" d7 "_lt" d8 f ".py"
with d1..d4 = str(int >= 0) and d5..d8 = prob_to_str(k/100) = str(k): non-empty digit strings (A-STRINT + the 99 ground
obligations), f in {"", "_force_down"}. Stage i peels one field: from  d SEP d' T = e SEP e' U  it follows d = e and
d' T = e' U, which is the hypothesis of stage i+1; the last stage peels d8 and the flag. Each query asserts the negation."""
HEAD = '(set-logic ALL)\n(define-fun digs ((s String)) Bool (str.in_re s (re.+ (re.range "0" "9"))))\n(define-fun flag ((s String)) Bool (or (= s "") (= s "_force_down")))\n'
SEPS = ["_w", "_l", "_r", "_rb", "_lb", "_tb", "_lt"]


def stage(prefix, sep):
    return HEAD + ('(declare-fun d () String) (declare-fun e () String) (declare-fun d2 () String) (declare-fun e2 () String) (declare-fun T () String) (declare-fun U () String)\n'
                   '(assert (and (digs d) (digs e) (digs d2) (digs e2)))\n'
                   f'(assert (= (str.++ "{prefix}" d "{sep}" d2 T) (str.++ "{prefix}" e "{sep}" e2 U)))\n'
                   '(assert (not (and (= d e) (= (str.++ d2 T) (str.++ e2 U)))))\n(check-sat)\n')


LAST = HEAD + ('(declare-fun d () String) (declare-fun e () String) (declare-fun f () String) (declare-fun g () String)\n'
               '(assert (and (digs d) (digs e) (flag f) (flag g)))\n(assert (= (str.++ d f ".py") (str.++ e g ".py")))\n'
               '(assert (not (and (= d e) (= f g))))\n(check-sat)\n')
# str(int) of a non-negative int is a non-empty digit string, and is injective (A-STRINT, stated over str.from_int)
STRINT = HEAD + ('(declare-fun x () Int) (declare-fun y () Int)\n(assert (and (>= x 0) (>= y 0)))\n'
                 '(assert (not (and (digs (str.from_int x)) (=> (= (str.from_int x) (str.from_int y)) (= x y)))))\n(check-sat)\n')
LEMMAS = [(f'peel-{i}:{sep}', stage("inputs/robot_" if i == 0 else "", sep)) for i, sep in enumerate(SEPS)] + [('peel-last:flag.py', LAST)]

"""Sidecar contracts for /repo/conditionalrewards.py (C12, C16)."""
from z3 import StringVal, Concat, If, Function, IntVal
from pyvc.ty import *
import pyvc.ty as Ty
from pyvc.engine import spec, SPEC, sha
from pyvc.lemmas import lemma

C = {}


def contract(name, **kw):
    kw.setdefault('heap', [])
    kw.setdefault('lheap', [])
    kw.setdefault('props', [])
    C['conditionalrewards.' + name] = kw


# one entry of the result dictionary: the message is a string, every other field is an opaque Python value
ENTRY_KEYS = ['n_states', 'n_transitions', 'n_iterations_reach', 'n_iterations_rew', 'reachability_strategies', 'final_strategies', 'total_time', 'msg',
              'rewards', 'rew_min_reach', 'probabilities', 'prob_min_rew']
ENTRY = REC('Entry', [(k, STR if k == 'msg' else VAL) for k in ENTRY_KEYS])
RESULTS = ODICT(ENTRY)
LS = LIST(STR)


def FMT(t):          # the same uninterpreted formatting function the engine uses for {value} in an f-string
    nm = 'fmt_' + sha(repr(t))
    if nm not in SPEC:
        SPEC[nm] = dict(f=Function(nm, sort(t), Ty.StringSort()), args=[t], ret=STR, unfold=None)
    return SPEC[nm]['f']


def fld(e, k):
    return getattr(Ty.S(ENTRY), 'k_' + k)(e)


def block_pieces(name, e):
    """the 16 strings of one block, from the statement: which field is printed on which line"""
    V = FMT(VAL)
    line = lambda label, txt: Concat(StringVal(label), txt, StringVal("\n"))
    return [StringVal("=" * 160), StringVal("\n"),
            line("Running example         : ", name), line("Message                 : ", fld(e, 'msg')),
            line("number of states        : ", V(fld(e, 'n_states'))), line("number of transitions   : ", V(fld(e, 'n_transitions'))),
            line("n iterations reach      : ", V(fld(e, 'n_iterations_reach'))), line("n iterations rew        : ", V(fld(e, 'n_iterations_rew'))),
            line("Reachability strategies : ", V(fld(e, 'reachability_strategies'))), line("Final strategies        : ", V(fld(e, 'final_strategies'))),
            line("Are equal               : ", FMT(BOOL)(fld(e, 'reachability_strategies') == fld(e, 'final_strategies'))),
            line("Probabilities           : ", V(fld(e, 'probabilities'))), line("Probabilities min rew   : ", V(fld(e, 'prob_min_rew'))),
            line("Rewards                 : ", V(fld(e, 'rewards'))), line("Rewards min reach       : ", V(fld(e, 'rew_min_reach'))),
            line("Total time              : ", V(fld(e, 'total_time')))]


# Blocks(res, i): the text of the report for the first i entries, in the order of the dictionary (the property is about the
# content of the file, not about how many write() calls produce it)
Blocks = spec('Blocks', [RESULTS, INT], STR)


def _blocks_unfold(res, i):
    S = Ty.S(RESULTS)
    key = L_arr(S.keys(res), LS)[i - 1]
    return Blocks(res, i) == If(i <= 0, StringVal(""), Concat(Blocks(res, i - 1), *block_pieces(key, S.val(res)[key])))


SPEC['Blocks']['unfold'] = _blocks_unfold
STEM = "file_name.split('/')[-1].split('.')[0]"
contract('save_results_to_file',
         params={'game_resuts': RESULTS, 'file_name': STR},
         locals={'name': STR, 'game': ENTRY, 'reachability_strategies': VAL, 'final_strategies': VAL, 'total_time': VAL},
         requires=[], modifies={},
         ensures=[f"__path == 'outputs/' + old({STEM}) + '.txt'", "__mode == 'w'",           # named after the input file
                  "__content == Blocks(game_resuts, len(okeys(game_resuts)))"],             # one block per entry, in order, each field on its line
         loops={0: dict(inv=["__content == Blocks(game_resuts, _i)"])},
         props=['C16'])
contract('read_dict_from_file',
         params={'file_name': STR}, result=PYVAL, locals={'contents': STR, 'dictionary': PYVAL},
         requires=[], modifies={},
         ensures=["result == EVAL(CONTENT(file_name))", "is_dict(result)", "__path == file_name", "__mode == 'r'"],
         raises=dict(exc=['ValueError'], when=[], ensures=["not is_dict(EVAL(CONTENT(file_name)))"]),
         props=['C16', 'C12'])

# ------------------------------------------------------------------ run_games (C12, C09): DESIGN A.6
# Abstract heap: a game description is a dict-like object with five fixed keys; its four description values are opaque values
# (solve is summarised as a function of them: justified by C10 -- the solver reads nothing else and changes none of them).
from z3 import Const, And, Or, Not, Implies, ForAll, Exists, Int, BoolVal
GD = REF('GameDict')
SGS = REF('StochasticGame')
FIELDS = {'gd_rewards': VAL, 'gd_players': VAL, 'gd_tl': VAL, 'gd_finals': VAL, 'gd_prune': BOOL,
          'sg_rewards': VAL, 'sg_players': VAL, 'sg_tl': VAL, 'sg_finals': VAL, 'sg_prune': BOOL, 'num_states': INT}
GD_KEYS = {'rewards': 'gd_rewards', 'players': 'gd_players', 'transition_list': 'gd_tl', 'final_states': 'gd_finals', 'prune_states': 'gd_prune'}
R8 = TUP(VAL, VAL, VAL, VAL, VAL, VAL, VAL, VAL)
DESC4 = [VAL, VAL, VAL, VAL]
SOL = spec('SOL', DESC4 + [BOOL], R8)            # what solve returns for a description and a pruning mode
SOLFAIL = spec('SOLFAIL', DESC4 + [BOOL], BOOL)  # solve raises ValueError (malformed, or no solution)
ERR = spec('ERR', DESC4 + [BOOL], STR)           # ... with this message
NSTATES = spec('NSTATES', [VAL], INT)
NTRANS = spec('NTRANS', [VAL], INT)
SGD = "self.sg_rewards, self.sg_players, self.sg_tl, self.sg_finals"
contract('SG.__init__', external=True, constructor=True, heap=list(FIELDS),
         params=dict([('self', SGS), ('rewards', VAL), ('players', VAL), ('transition_list', VAL), ('final_states', VAL), ('prune_states', BOOL)]),
         requires=[], modifies={f: ['self'] for f in ('sg_rewards', 'sg_players', 'sg_tl', 'sg_finals', 'sg_prune', 'num_states')},
         ensures=["self.sg_rewards == rewards", "self.sg_players == players", "self.sg_tl == transition_list", "self.sg_finals == final_states",
                  "self.sg_prune == prune_states", "self.num_states == NSTATES(players)"])
contract('SG.count_transitions', external=True, heap=list(FIELDS), params={'self': SGS}, result=INT, requires=[], modifies={},
         ensures=["result == NTRANS(self.sg_tl)"])
contract('SG.solve', external=True, heap=list(FIELDS), params={'self': SGS}, result=R8, requires=[], modifies={},
         ensures=[f"result == SOL({SGD}, self.sg_prune)", f"not SOLFAIL({SGD}, self.sg_prune)"],
         raises=dict(exc=['ValueError'], when=[f"SOLFAIL({SGD}, self.sg_prune)"], ensures=[f"exc_msg == ERR({SGD}, self.sg_prune)"]))


def ext_deepcopy(s, st, e):        # copy.deepcopy(game): a fresh object, structurally equal (A-DEEPCOPY)
    from z3 import Store
    v, t = s.ev(e.args[0], st)
    if t != GD:
        from pyvc.engine import Unsupported
        raise Unsupported('deepcopy of a non-game')
    new = st.alloc_o
    st.alloc_o = st.alloc_o + 1
    for f in GD_KEYS.values():
        st.heap[f] = Store(st.heap[f], new, st.heap[f][v])
    return new, GD


def ext_time(s, st, e):            # time.time(): some real
    return fresh('clock', REAL), REAL


GAMES = ODICT(GD)
KEYS = "okeys(games_dict)"


def D(g, prune):
    return f"{g}.gd_rewards, {g}.gd_players, {g}.gd_tl, {g}.gd_finals, {prune}"


def solved_entry(e, g, prune):
    sol = f"SOL({D(g, prune)})"
    return (f"({e}['msg'] == 'Game solved' and {e}['final_strategies'] == {sol}[0] and {e}['reachability_strategies'] == {sol}[1] and {e}['rewards'] == {sol}[2]"
            f" and {e}['probabilities'] == {sol}[3] and {e}['n_iterations_reach'] == {sol}[4] and {e}['n_iterations_rew'] == {sol}[5] and {e}['prob_min_rew'] == {sol}[6]"
            f" and {e}['rew_min_reach'] == {sol}[7] and {e}['n_states'] == toval(NSTATES({g}.gd_players)) and {e}['n_transitions'] == toval(NTRANS({g}.gd_tl)))")


def empty_entry(e, g):
    return (f"({e}['final_strategies'] == NONEVAL and {e}['reachability_strategies'] == NONEVAL and {e}['rewards'] == NONEVAL and {e}['probabilities'] == NONEVAL"
            f" and {e}['n_iterations_reach'] == toval(0) and {e}['n_iterations_rew'] == toval(0)"
            f" and {e}['n_states'] == toval(NSTATES({g}.gd_players)) and {e}['n_transitions'] == toval(NTRANS({g}.gd_tl)))")


def game_done(a, res='game_results'):
    k = f"{KEYS}[{a}]"
    g = f"old(oval(games_dict, {k}))"          # the game object (the dictionary itself is not changed)
    e1 = f"oval({res}, {k})"
    e2 = f"oval({res}, {k} + '_no_prune')"
    return (f"(ohas({res}, {k}) and ohas({res}, {k} + '_no_prune')"
            f" and implies(not SOLFAIL({D(g, 'True')}), {solved_entry(e1, g, 'True')}"
            f"     and implies(not SOLFAIL({D(g, 'False')}), {solved_entry(e2, g, 'False')})"
            f"     and implies(SOLFAIL({D(g, 'False')}), {e2}['msg'] == 'Error while solving the game: ' + ERR({D(g, 'False')}) and {empty_entry(e2, g)}))"
            f" and implies(SOLFAIL({D(g, 'True')}), {e1}['msg'] == 'Error while solving the game: ' + ERR({D(g, 'True')}) and {empty_entry(e1, g)}"
            f"     and {e2}['msg'] == 'Game not solved' and {empty_entry(e2, g)}))")


# names: pairwise distinct, and no name is another name + "_no_prune" (the collision case is the known finding F-NAME)
NAMES_OK = [f"forall(a, 0, len({KEYS}), forall(b, 0, len({KEYS}), implies(a != b, {KEYS}[a] != {KEYS}[b] and {KEYS}[a] != {KEYS}[b] + '_no_prune')))",
            f"forall(a, 0, len({KEYS}), ohas(games_dict, {KEYS}[a]))"]
DESC_SAME = ("forall(o, implies(0 <= o and o < old(alloc_o()), RW[o] == old(RW[o]) and PL[o] == old(PL[o]) and TLV[o] == old(TLV[o]) and FN[o] == old(FN[o])))")
contract('run_games', heap=list(FIELDS), externals={'copy.deepcopy': ext_deepcopy, 'time.time': ext_time},
         heapnames={'RW': 'gd_rewards', 'PL': 'gd_players', 'TLV': 'gd_tl', 'FN': 'gd_finals'},
         dict_fields={'GameDict': GD_KEYS}, constructors={'StochasticGame': 'conditionalrewards.SG.__init__'},
         callee_contracts={'StochasticGame.count_transitions': 'conditionalrewards.SG.count_transitions', 'StochasticGame.solve': 'conditionalrewards.SG.solve'},
         class_module={'StochasticGame': 'conditionalrewards'},
         params={'games_dict': GAMES}, result=RESULTS,
         locals={'game_results': RESULTS, 'name': STR, 'game': GD, 'prev_game_had_solution': BOOL, 'prune_states': BOOL,
                 'reachability_strategies': VAL, 'final_strategies': VAL, 'rewards': VAL, 'probabilities': VAL, 'iterations_reach': VAL, 'iterations_rew': VAL,
                 'reach_min_rewards': VAL, 'rewards_min_reach': VAL, 'game_copy': GD, 'start': REAL, 'end': REAL, 'total_time': REAL,
                 'sgame': SGS, 'n_transitions': INT, 'msg': STR, 'e': STR},
         requires=NAMES_OK + [f"forall(a, 0, len({KEYS}), 0 <= oval(games_dict, {KEYS}[a]) and oval(games_dict, {KEYS}[a]) < alloc_o())"],
         ensures=[f"forall(a, 0, len({KEYS}), {game_done('a', 'result')})", DESC_SAME],
         modifies={'gd_prune': 'all', 'gd_rewards': ["_o >= alloc_o()"], 'gd_players': ["_o >= alloc_o()"], 'gd_tl': ["_o >= alloc_o()"], 'gd_finals': ["_o >= alloc_o()"],
                   'sg_rewards': 'all', 'sg_players': 'all', 'sg_tl': 'all', 'sg_finals': 'all', 'sg_prune': 'all', 'num_states': 'all'},
         loops={0: dict(inv=[f"forall(a, 0, _i, {game_done('a')})", DESC_SAME, "alloc_o() >= old(alloc_o())",
                             # keys present so far are exactly those of the processed games
                             f"forall(k, 'str', implies(ohas(game_results, k), exists(a, 0, _i, k == {KEYS}[a] or k == {KEYS}[a] + '_no_prune')))"])},
         props=['C12', 'C09'])


# ------------------------------------------------------------------ main (C16, C12): the wiring of the command line
# `python conditionalrewards.py -f X [-s]` reads X, runs the batch on what it read, and -- exactly when -s is given -- saves THAT
# result under X's name. The three functions are summarised (their own contracts are above); what is proved here is which
# value flows where, and that nothing is saved without -s. `saved*` are ghost fields of the parsed-arguments object.
CARGS = REF('CArgs')
FIELDS.update({'file': STR, 'log_level': VAL, 'save_results': BOOL, 'saved': BOOL, 'saved_path': STR, 'saved_results': VAL})
READ = spec('READ', [STR], VAL)        # what read_dict_from_file returns for a path
RUN = spec('RUN', [VAL], VAL)          # what run_games returns for a dictionary of games
contract('init_parser', external=True, params={}, result=REF('CParser'), requires=[], ensures=[], modifies={}, props=[])
contract('CParser.parse_args', external=True, heap=['file', 'log_level', 'save_results', 'saved', 'saved_path', 'saved_results'],
         params={'self': REF('CParser')}, result=CARGS, requires=[], ensures=["not result.saved"], modifies={}, props=[])
contract('set_logger', external_for_main=True, params={'level': VAL}, requires=[], ensures=[], modifies={}, props=[])
contract('M.read', external=True, params={'file_name': STR}, result=VAL, requires=[], ensures=["result == READ(file_name)"], modifies={},
         raises=dict(exc=['ValueError'], when=[], ensures=[]), props=[])
contract('M.run', external=True, params={'games_dict': VAL}, result=VAL, requires=[], ensures=["result == RUN(games_dict)"], modifies={}, props=[])
contract('M.save', external=True, heap=['saved', 'saved_path', 'saved_results'],
         params={'game_resuts': VAL, 'file_name': STR, 'who': CARGS}, ghost_params={'who': 'parsed_args'},
         requires=[], ensures=["who.saved", "who.saved_path == file_name", "who.saved_results == game_resuts"],
         modifies={'saved': ['who'], 'saved_path': ['who'], 'saved_results': ['who']}, props=[])
contract('main', heap=['file', 'log_level', 'save_results', 'saved', 'saved_path', 'saved_results'],
         class_module={'CParser': 'conditionalrewards', 'CArgs': 'conditionalrewards'},
         callee_contracts={'read_dict_from_file': 'conditionalrewards.M.read', 'run_games': 'conditionalrewards.M.run', 'save_results_to_file': 'conditionalrewards.M.save',
                           'CParser.parse_args': 'conditionalrewards.CParser.parse_args'},
         params={}, locals={'parser': REF('CParser'), 'parsed_args': CARGS, 'my_dict': VAL, 'game_results': VAL},
         requires=[], modifies={'saved': 'all', 'saved_path': 'all', 'saved_results': 'all'},      # ghost fields only
         ensures=["implies(parsed_args.save_results, parsed_args.saved and parsed_args.saved_path == parsed_args.file"
                  " and parsed_args.saved_results == RUN(READ(parsed_args.file)))",
                  "implies(not parsed_args.save_results, not parsed_args.saved)"],
         raises=dict(exc=['ValueError'], when=[], ensures=["not parsed_args.saved"]),      # an input file that is not a dictionary: nothing is saved
         props=['C16', 'C12'])

"""Specification vocabulary for tad.py (DESIGN 5): spec functions (uninterpreted + defining equations unfolded
by the generator) and the lemmas about them. Written from the property statements, not from the code."""
from z3 import (If, And, Or, Not, Implies, ForAll, Exists, IntVal, RealVal, BoolVal, StringVal, Function, RealSort, IntSort,
                Const, Int, Real, MultiPattern)
from pyvc.ty import *
from pyvc.engine import spec, SPEC, AXIOMS, LEMMAS
from pyvc.lemmas import lemma

NS = LIST(TRANS)                 # a transition list value
SLT = LIST(REF('Node'))          # the solver's state list (value list of object references)
RPT = ARR(INT, REAL)             # a per-object real vector (heap field array)
LSTR = LIST(STR)

P_PROB, P_ONE, P_TWO = 0, 1, 2   # class tags


def ns_at(ns, k):
    return L_arr(ns, NS)[k]


def node_of(ns, sl, k):
    return L_arr(sl, SLT)[t_tgt(ns_at(ns, k))]


def val(ns, sl, X, k):
    return X[node_of(ns, sl, k)]


# ---- round(x, 6): uninterpreted, with the axioms of A-ROUND
round6 = spec('round6', [REAL], REAL)
_x, _y = Real('x!r'), Real('y!r')
AXIOMS['round6'] = And(
    ForAll([_x, _y], Implies(_x <= _y, round6(_x) <= round6(_y)), patterns=[MultiPattern(round6(_x), round6(_y))]),
    ForAll([_x], And(round6(_x) - _x <= RealVal('5/10000000'), _x - round6(_x) <= RealVal('5/10000000')), patterns=[round6(_x)]),
    round6(RealVal(0)) == 0, round6(RealVal(1)) == 1)

# ---- reachability Bellman operators over the first i successors
MaxS = spec('MaxS', [NS, SLT, RPT, INT], REAL)
SPEC['MaxS']['unfold'] = lambda ns, sl, X, i: MaxS(ns, sl, X, i) == If(i <= 0, RealVal(0), If(val(ns, sl, X, i - 1) > MaxS(ns, sl, X, i - 1), val(ns, sl, X, i - 1), MaxS(ns, sl, X, i - 1)))
MinS = spec('MinS', [NS, SLT, RPT, INT], REAL)
SPEC['MinS']['unfold'] = lambda ns, sl, X, i: MinS(ns, sl, X, i) == If(i <= 0, RealVal(1), If(val(ns, sl, X, i - 1) < MinS(ns, sl, X, i - 1), val(ns, sl, X, i - 1), MinS(ns, sl, X, i - 1)))
SumS = spec('SumS', [NS, SLT, RPT, INT], REAL)
SPEC['SumS']['unfold'] = lambda ns, sl, X, i: SumS(ns, sl, X, i) == If(i <= 0, RealVal(0), SumS(ns, sl, X, i - 1) + val(ns, sl, X, i - 1) * t_prob(ns_at(ns, i - 1)))
# BR(class, successors, state list, vector): the operator the owner of the state selects, over all successors
BR = spec('BR', [INT, NS, SLT, RPT], REAL)
SPEC['BR']['unfold'] = lambda c, ns, sl, X: BR(c, ns, sl, X) == If(c == P_ONE, MaxS(ns, sl, X, L_len(ns, NS)), If(c == P_TWO, MinS(ns, sl, X, L_len(ns, NS)), SumS(ns, sl, X, L_len(ns, NS))))

# ---- rounded extrema and arg-lists (C04, C05)
MaxR = spec('MaxR', [NS, SLT, RPT, INT], REAL)    # max floored at 0 of round6(value)
SPEC['MaxR']['unfold'] = lambda ns, sl, X, i: MaxR(ns, sl, X, i) == If(i <= 0, RealVal(0), If(round6(val(ns, sl, X, i - 1)) > MaxR(ns, sl, X, i - 1), round6(val(ns, sl, X, i - 1)), MaxR(ns, sl, X, i - 1)))
MinR = spec('MinR', [NS, SLT, RPT, INT], REAL)    # min capped at 1 of round6(value)
SPEC['MinR']['unfold'] = lambda ns, sl, X, i: MinR(ns, sl, X, i) == If(i <= 0, RealVal(1), If(round6(val(ns, sl, X, i - 1)) < MinR(ns, sl, X, i - 1), round6(val(ns, sl, X, i - 1)), MinR(ns, sl, X, i - 1)))
MinR0 = spec('MinR0', [NS, SLT, RPT, INT], REAL)  # min of round6(value) over the first i >= 1 successors, seeded with the first
SPEC['MinR0']['unfold'] = lambda ns, sl, X, i: MinR0(ns, sl, X, i) == If(i <= 0, round6(val(ns, sl, X, 0)), If(round6(val(ns, sl, X, i - 1)) < MinR0(ns, sl, X, i - 1), round6(val(ns, sl, X, i - 1)), MinR0(ns, sl, X, i - 1)))
# ArgEqR(ns, sl, X, i, m): labels, in transition order, of those of the first i successors whose rounded value equals m
ArgEqR = spec('ArgEqR', [NS, SLT, RPT, INT, REAL], LSTR)
SPEC['ArgEqR']['unfold'] = lambda ns, sl, X, i, m: ArgEqR(ns, sl, X, i, m) == If(i <= 0, empty(LSTR), If(round6(val(ns, sl, X, i - 1)) == m, L_app(ArgEqR(ns, sl, X, i - 1, m), LSTR, t_lab(ns_at(ns, i - 1))), ArgEqR(ns, sl, X, i - 1, m)))

_P = [('ns', NS), ('sl', SLT), ('X', RPT), ('i', INT)]
# every rounded value among the first i is <= MaxR / >= MinR / >= MinR0
lemma('L_ArgEqR_empty_above', _P + [('m', REAL)], lambda ns, sl, X, i, m: Implies(m > MaxR(ns, sl, X, i), ArgEqR(ns, sl, X, i, m) == empty(LSTR)), ind='i')
lemma('L_ArgEqR_empty_below', _P + [('m', REAL)], lambda ns, sl, X, i, m: Implies(m < MinR(ns, sl, X, i), ArgEqR(ns, sl, X, i, m) == empty(LSTR)), ind='i')
lemma('L_ArgEqR_empty_below0', _P + [('m', REAL)], lambda ns, sl, X, i, m: Implies(And(i >= 1, m < MinR0(ns, sl, X, i)), ArgEqR(ns, sl, X, i, m) == empty(LSTR)), ind='i',
      hints=lambda ns, sl, X, i, m: [ArgEqR(ns, sl, X, 0, m) == empty(LSTR)])

# ---- probability mass of the first i successors
SumP = spec('SumP', [NS, INT], REAL)
SPEC['SumP']['unfold'] = lambda ns, i: SumP(ns, i) == If(i <= 0, RealVal(0), SumP(ns, i - 1) + t_prob(ns_at(ns, i - 1)))

AR = ARR(INT, REAL)


def _absr(x):
    return If(x >= 0, x, -x)


def _inrange(ns, sl, i):
    k = Int('k!ir')
    return ForAll([k], Implies(And(0 <= k, k < i), And(0 <= t_tgt(ns_at(ns, k)), t_tgt(ns_at(ns, k)) < L_len(sl, SLT))))


def _le(A, B, sl):
    t = Int('t!le')
    return ForAll([t], Implies(And(0 <= t, t < L_len(sl, SLT)), A[L_arr(sl, SLT)[t]] <= B[L_arr(sl, SLT)[t]]))


def _near(A, B, e):
    r = Int('r!nr')
    return ForAll([r], _absr(A[r] - B[r]) <= e)


def _pnonneg(ns, i):
    k = Int('k!pn')
    return ForAll([k], Implies(And(0 <= k, k < i), t_prob(ns_at(ns, k)) >= 0))


_PM = [('ns', NS), ('sl', SLT), ('A', AR), ('B', AR), ('i', INT)]
# monotonicity of the three operators in the value vector (successors in range; probabilities >= 0 for SumS)
lemma('L_MaxS_mono', _PM, lambda ns, sl, A, B, i: Implies(And(_inrange(ns, sl, i), _le(A, B, sl)), MaxS(ns, sl, A, i) <= MaxS(ns, sl, B, i)), ind='i')
lemma('L_MinS_mono', _PM, lambda ns, sl, A, B, i: Implies(And(_inrange(ns, sl, i), _le(A, B, sl)), MinS(ns, sl, A, i) <= MinS(ns, sl, B, i)), ind='i')
lemma('L_SumS_mono', _PM, lambda ns, sl, A, B, i: Implies(And(_inrange(ns, sl, i), _le(A, B, sl), _pnonneg(ns, i)), SumS(ns, sl, A, i) <= SumS(ns, sl, B, i)), ind='i')
_PL = [('ns', NS), ('sl', SLT), ('A', AR), ('B', AR), ('e', REAL), ('i', INT)]
# 1-Lipschitz in the sup norm
lemma('L_MaxS_lip', _PL, lambda ns, sl, A, B, e, i: Implies(And(_near(A, B, e), e >= 0), _absr(MaxS(ns, sl, A, i) - MaxS(ns, sl, B, i)) <= e), ind='i')
lemma('L_MinS_lip', _PL, lambda ns, sl, A, B, e, i: Implies(And(_near(A, B, e), e >= 0), _absr(MinS(ns, sl, A, i) - MinS(ns, sl, B, i)) <= e), ind='i')
lemma('L_SumS_lip', _PL, lambda ns, sl, A, B, e, i: Implies(And(_near(A, B, e), e >= 0, _pnonneg(ns, i)), _absr(SumS(ns, sl, A, i) - SumS(ns, sl, B, i)) <= e * SumP(ns, i)), ind='i')
# bounds: values in [0,1] stay in [0,1]
_PB = [('ns', NS), ('sl', SLT), ('A', AR), ('i', INT)]


def _unit(A, sl):
    t = Int('t!un')
    return ForAll([t], Implies(And(0 <= t, t < L_len(sl, SLT)), And(0 <= A[L_arr(sl, SLT)[t]], A[L_arr(sl, SLT)[t]] <= 1)))


lemma('L_MaxS_unit', _PB, lambda ns, sl, A, i: Implies(And(_inrange(ns, sl, i), _unit(A, sl)), And(0 <= MaxS(ns, sl, A, i), MaxS(ns, sl, A, i) <= 1)), ind='i')
lemma('L_MinS_unit', _PB, lambda ns, sl, A, i: Implies(And(_inrange(ns, sl, i), _unit(A, sl)), And(0 <= MinS(ns, sl, A, i), MinS(ns, sl, A, i) <= 1)), ind='i')
lemma('L_SumS_unit', _PB, lambda ns, sl, A, i: Implies(And(_inrange(ns, sl, i), _unit(A, sl), _pnonneg(ns, i)), And(0 <= SumS(ns, sl, A, i), SumS(ns, sl, A, i) <= SumP(ns, i))), ind='i')


# the same three facts for BR (direct lemmas: case split on the class tag + the instances above)
def _proper(c, ns):
    return And(0 <= c, c <= 2, Implies(c == P_PROB, And(_pnonneg(ns, L_len(ns, NS)), SumP(ns, L_len(ns, NS)) == 1)))


_PBR = [('c', INT), ('ns', NS), ('sl', SLT), ('A', AR), ('B', AR)]
lemma('L_BR_mono', _PBR, lambda c, ns, sl, A, B: Implies(And(_inrange(ns, sl, L_len(ns, NS)), _le(A, B, sl), _proper(c, ns)), BR(c, ns, sl, A) <= BR(c, ns, sl, B)),
      hints=lambda c, ns, sl, A, B: [LEMMAS[n](ns, sl, A, B, L_len(ns, NS)) for n in ('L_MaxS_mono', 'L_MinS_mono', 'L_SumS_mono')] + [L_len(ns, NS) >= 0])
lemma('L_BR_lip', _PBR + [('e', REAL)], lambda c, ns, sl, A, B, e: Implies(And(_near(A, B, e), e >= 0, _proper(c, ns)), _absr(BR(c, ns, sl, A) - BR(c, ns, sl, B)) <= e),
      hints=lambda c, ns, sl, A, B, e: [LEMMAS[n](ns, sl, A, B, e, L_len(ns, NS)) for n in ('L_MaxS_lip', 'L_MinS_lip', 'L_SumS_lip')] + [L_len(ns, NS) >= 0])
lemma('L_BR_unit', [('c', INT), ('ns', NS), ('sl', SLT), ('A', AR)], lambda c, ns, sl, A: Implies(And(_inrange(ns, sl, L_len(ns, NS)), _unit(A, sl), _proper(c, ns)), And(0 <= BR(c, ns, sl, A), BR(c, ns, sl, A) <= 1)),
      hints=lambda c, ns, sl, A: [LEMMAS[n](ns, sl, A, L_len(ns, NS)) for n in ('L_MaxS_unit', 'L_MinS_unit', 'L_SumS_unit')] + [L_len(ns, NS) >= 0])

"""Specification vocabulary for tad.py (DESIGN 5): spec functions (uninterpreted + defining equations unfolded
by the generator) and the lemmas about them. Written from the property statements, not from the code."""
from z3 import (If, And, Or, Not, Implies, ForAll, Exists, IntVal, RealVal, BoolVal, StringVal, Function, RealSort, IntSort,
                Const, Int, Real, MultiPattern)
from pyvc.ty import *
from pyvc.engine import spec, SPEC, AXIOMS, LEMMAS
from pyvc.lemmas import lemma

NS = LIST(TRANS)                 # a transition list value
SLT = LIST(REF('Node'))          # the solver's state list (value list of object references)
RPT = ARR(INT, REAL)             # a per-object real vector (heap field array)
LSTR = LIST(STR)

P_PROB, P_ONE, P_TWO = 0, 1, 2   # class tags


def ns_at(ns, k):
    return L_arr(ns, NS)[k]


def node_of(ns, sl, k):
    return L_arr(sl, SLT)[t_tgt(ns_at(ns, k))]


def val(ns, sl, X, k):
    return X[node_of(ns, sl, k)]


# ---- round(x, 6): uninterpreted, with the axioms of A-ROUND
round6 = spec('round6', [REAL], REAL)
_x, _y = Real('x!r'), Real('y!r')
AXIOMS['round6'] = And(
    ForAll([_x, _y], Implies(_x <= _y, round6(_x) <= round6(_y)), patterns=[MultiPattern(round6(_x), round6(_y))]),
    ForAll([_x], And(round6(_x) - _x <= RealVal('5/10000000'), _x - round6(_x) <= RealVal('5/10000000')), patterns=[round6(_x)]),
    round6(RealVal(0)) == 0, round6(RealVal(1)) == 1)

# ---- reachability Bellman operators over the first i successors
MaxS = spec('MaxS', [NS, SLT, RPT, INT], REAL)
SPEC['MaxS']['unfold'] = lambda ns, sl, X, i: MaxS(ns, sl, X, i) == If(i <= 0, RealVal(0), If(val(ns, sl, X, i - 1) > MaxS(ns, sl, X, i - 1), val(ns, sl, X, i - 1), MaxS(ns, sl, X, i - 1)))
MinS = spec('MinS', [NS, SLT, RPT, INT], REAL)
SPEC['MinS']['unfold'] = lambda ns, sl, X, i: MinS(ns, sl, X, i) == If(i <= 0, RealVal(1), If(val(ns, sl, X, i - 1) < MinS(ns, sl, X, i - 1), val(ns, sl, X, i - 1), MinS(ns, sl, X, i - 1)))
SumS = spec('SumS', [NS, SLT, RPT, INT], REAL)
SPEC['SumS']['unfold'] = lambda ns, sl, X, i: SumS(ns, sl, X, i) == If(i <= 0, RealVal(0), SumS(ns, sl, X, i - 1) + val(ns, sl, X, i - 1) * t_prob(ns_at(ns, i - 1)))
# BR(class, successors, state list, vector): the operator the owner of the state selects, over all successors
BR = spec('BR', [INT, NS, SLT, RPT], REAL)
SPEC['BR']['unfold'] = lambda c, ns, sl, X: BR(c, ns, sl, X) == If(c == P_ONE, MaxS(ns, sl, X, L_len(ns, NS)), If(c == P_TWO, MinS(ns, sl, X, L_len(ns, NS)), SumS(ns, sl, X, L_len(ns, NS))))

# ---- rounded extrema and arg-lists (C04, C05)
MaxR = spec('MaxR', [NS, SLT, RPT, INT], REAL)    # max floored at 0 of round6(value)
SPEC['MaxR']['unfold'] = lambda ns, sl, X, i: MaxR(ns, sl, X, i) == If(i <= 0, RealVal(0), If(round6(val(ns, sl, X, i - 1)) > MaxR(ns, sl, X, i - 1), round6(val(ns, sl, X, i - 1)), MaxR(ns, sl, X, i - 1)))
MinR = spec('MinR', [NS, SLT, RPT, INT], REAL)    # min capped at 1 of round6(value)
SPEC['MinR']['unfold'] = lambda ns, sl, X, i: MinR(ns, sl, X, i) == If(i <= 0, RealVal(1), If(round6(val(ns, sl, X, i - 1)) < MinR(ns, sl, X, i - 1), round6(val(ns, sl, X, i - 1)), MinR(ns, sl, X, i - 1)))
MinR0 = spec('MinR0', [NS, SLT, RPT, INT], REAL)  # min of round6(value) over the first i >= 1 successors, seeded with the first
SPEC['MinR0']['unfold'] = lambda ns, sl, X, i: MinR0(ns, sl, X, i) == If(i <= 0, round6(val(ns, sl, X, 0)), If(round6(val(ns, sl, X, i - 1)) < MinR0(ns, sl, X, i - 1), round6(val(ns, sl, X, i - 1)), MinR0(ns, sl, X, i - 1)))
# ArgEqR(ns, sl, X, i, m): labels, in transition order, of those of the first i successors whose rounded value equals m
ArgEqR = spec('ArgEqR', [NS, SLT, RPT, INT, REAL], LSTR)
SPEC['ArgEqR']['unfold'] = lambda ns, sl, X, i, m: ArgEqR(ns, sl, X, i, m) == If(i <= 0, empty(LSTR), If(round6(val(ns, sl, X, i - 1)) == m, L_app(ArgEqR(ns, sl, X, i - 1, m), LSTR, t_lab(ns_at(ns, i - 1))), ArgEqR(ns, sl, X, i - 1, m)))

_P = [('ns', NS), ('sl', SLT), ('X', RPT), ('i', INT)]
# every rounded value among the first i is <= MaxR / >= MinR / >= MinR0
lemma('L_ArgEqR_empty_above', _P + [('m', REAL)], lambda ns, sl, X, i, m: Implies(m > MaxR(ns, sl, X, i), ArgEqR(ns, sl, X, i, m) == empty(LSTR)), ind='i')
lemma('L_ArgEqR_empty_below', _P + [('m', REAL)], lambda ns, sl, X, i, m: Implies(m < MinR(ns, sl, X, i), ArgEqR(ns, sl, X, i, m) == empty(LSTR)), ind='i')
lemma('L_ArgEqR_empty_below0', _P + [('m', REAL)], lambda ns, sl, X, i, m: Implies(And(i >= 1, m < MinR0(ns, sl, X, i)), ArgEqR(ns, sl, X, i, m) == empty(LSTR)), ind='i',
      hints=lambda ns, sl, X, i, m: [ArgEqR(ns, sl, X, 0, m) == empty(LSTR)])

# ---- probability mass of the first i successors
SumP = spec('SumP', [NS, INT], REAL)
SPEC['SumP']['unfold'] = lambda ns, i: SumP(ns, i) == If(i <= 0, RealVal(0), SumP(ns, i - 1) + t_prob(ns_at(ns, i - 1)))

AR = ARR(INT, REAL)


def _absr(x):
    return If(x >= 0, x, -x)


def _inrange(ns, sl, i):
    k = Int('k!ir')
    return ForAll([k], Implies(And(0 <= k, k < i), And(0 <= t_tgt(ns_at(ns, k)), t_tgt(ns_at(ns, k)) < L_len(sl, SLT))))


def _le(A, B, sl):
    t = Int('t!le')
    return ForAll([t], Implies(And(0 <= t, t < L_len(sl, SLT)), A[L_arr(sl, SLT)[t]] <= B[L_arr(sl, SLT)[t]]))


def _near(A, B, e):
    r = Int('r!nr')
    return ForAll([r], _absr(A[r] - B[r]) <= e)


def _pnonneg(ns, i):
    k = Int('k!pn')
    return ForAll([k], Implies(And(0 <= k, k < i), t_prob(ns_at(ns, k)) >= 0))


_PM = [('ns', NS), ('sl', SLT), ('A', AR), ('B', AR), ('i', INT)]
# monotonicity of the three operators in the value vector (successors in range; probabilities >= 0 for SumS)
lemma('L_MaxS_mono', _PM, lambda ns, sl, A, B, i: Implies(And(_inrange(ns, sl, i), _le(A, B, sl)), MaxS(ns, sl, A, i) <= MaxS(ns, sl, B, i)), ind='i')
lemma('L_MinS_mono', _PM, lambda ns, sl, A, B, i: Implies(And(_inrange(ns, sl, i), _le(A, B, sl)), MinS(ns, sl, A, i) <= MinS(ns, sl, B, i)), ind='i')
lemma('L_SumS_mono', _PM, lambda ns, sl, A, B, i: Implies(And(_inrange(ns, sl, i), _le(A, B, sl), _pnonneg(ns, i)), SumS(ns, sl, A, i) <= SumS(ns, sl, B, i)), ind='i')
_PL = [('ns', NS), ('sl', SLT), ('A', AR), ('B', AR), ('e', REAL), ('i', INT)]
# 1-Lipschitz in the sup norm
lemma('L_MaxS_lip', _PL, lambda ns, sl, A, B, e, i: Implies(And(_near(A, B, e), e >= 0), _absr(MaxS(ns, sl, A, i) - MaxS(ns, sl, B, i)) <= e), ind='i')
lemma('L_MinS_lip', _PL, lambda ns, sl, A, B, e, i: Implies(And(_near(A, B, e), e >= 0), _absr(MinS(ns, sl, A, i) - MinS(ns, sl, B, i)) <= e), ind='i')
lemma('L_SumS_lip', _PL, lambda ns, sl, A, B, e, i: Implies(And(_near(A, B, e), e >= 0, _pnonneg(ns, i)), _absr(SumS(ns, sl, A, i) - SumS(ns, sl, B, i)) <= e * SumP(ns, i)), ind='i')
# bounds: values in [0,1] stay in [0,1]
_PB = [('ns', NS), ('sl', SLT), ('A', AR), ('i', INT)]


def _unit(A, sl):
    t = Int('t!un')
    return ForAll([t], Implies(And(0 <= t, t < L_len(sl, SLT)), And(0 <= A[L_arr(sl, SLT)[t]], A[L_arr(sl, SLT)[t]] <= 1)))


lemma('L_MaxS_unit', _PB, lambda ns, sl, A, i: Implies(And(_inrange(ns, sl, i), _unit(A, sl)), And(0 <= MaxS(ns, sl, A, i), MaxS(ns, sl, A, i) <= 1)), ind='i')
lemma('L_MinS_unit', _PB, lambda ns, sl, A, i: Implies(And(_inrange(ns, sl, i), _unit(A, sl)), And(0 <= MinS(ns, sl, A, i), MinS(ns, sl, A, i) <= 1)), ind='i')
lemma('L_SumS_unit', _PB, lambda ns, sl, A, i: Implies(And(_inrange(ns, sl, i), _unit(A, sl), _pnonneg(ns, i)), And(0 <= SumS(ns, sl, A, i), SumS(ns, sl, A, i) <= SumP(ns, i))), ind='i')


# the same three facts for BR (direct lemmas: case split on the class tag + the instances above)
def _proper(c, ns):
    return And(0 <= c, c <= 2, Implies(c == P_PROB, And(_pnonneg(ns, L_len(ns, NS)), SumP(ns, L_len(ns, NS)) == 1)))


_PBR = [('c', INT), ('ns', NS), ('sl', SLT), ('A', AR), ('B', AR)]
lemma('L_BR_mono', _PBR, lambda c, ns, sl, A, B: Implies(And(_inrange(ns, sl, L_len(ns, NS)), _le(A, B, sl), _proper(c, ns)), BR(c, ns, sl, A) <= BR(c, ns, sl, B)),
      hints=lambda c, ns, sl, A, B: [LEMMAS[n](ns, sl, A, B, L_len(ns, NS)) for n in ('L_MaxS_mono', 'L_MinS_mono', 'L_SumS_mono')] + [L_len(ns, NS) >= 0])
lemma('L_BR_lip', _PBR + [('e', REAL)], lambda c, ns, sl, A, B, e: Implies(And(_near(A, B, e), e >= 0, _proper(c, ns)), _absr(BR(c, ns, sl, A) - BR(c, ns, sl, B)) <= e),
      hints=lambda c, ns, sl, A, B, e: [LEMMAS[n](ns, sl, A, B, e, L_len(ns, NS)) for n in ('L_MaxS_lip', 'L_MinS_lip', 'L_SumS_lip')] + [L_len(ns, NS) >= 0])
lemma('L_BR_unit', [('c', INT), ('ns', NS), ('sl', SLT), ('A', AR)], lambda c, ns, sl, A: Implies(And(_inrange(ns, sl, L_len(ns, NS)), _unit(A, sl), _proper(c, ns)), And(0 <= BR(c, ns, sl, A), BR(c, ns, sl, A) <= 1)),
      hints=lambda c, ns, sl, A: [LEMMAS[n](ns, sl, A, L_len(ns, NS)) for n in ('L_MaxS_unit', 'L_MinS_unit', 'L_SumS_unit')] + [L_len(ns, NS) >= 0])

# ------------------------------------------------------------------ conditioning (C03): Filter / Renorm, from the statement
def alive(ns, sl, X, k):
    return val(ns, sl, X, k) != 0


# FilterAlive(ns, sl, RP, i): the elements ns[k], k < i, whose target has a non-zero value, in order
FilterAlive = spec('FilterAlive', [NS, SLT, RPT, INT], NS)
SPEC['FilterAlive']['unfold'] = lambda ns, sl, X, i: FilterAlive(ns, sl, X, i) == If(i <= 0, empty(NS), If(alive(ns, sl, X, i - 1), L_app(FilterAlive(ns, sl, X, i - 1), NS, ns_at(ns, i - 1)), FilterAlive(ns, sl, X, i - 1)))
# AliveMass: their total probability
AliveMass = spec('AliveMass', [NS, SLT, RPT, INT], REAL)
SPEC['AliveMass']['unfold'] = lambda ns, sl, X, i: AliveMass(ns, sl, X, i) == If(i <= 0, RealVal(0), If(alive(ns, sl, X, i - 1), AliveMass(ns, sl, X, i - 1) + t_prob(ns_at(ns, i - 1)), AliveMass(ns, sl, X, i - 1)))
# Renorm(L, m, j): the first j elements of L, each probability divided by m
Renorm = spec('Renorm', [NS, REAL, INT], NS)
SPEC['Renorm']['unfold'] = lambda L, m, j: Renorm(L, m, j) == If(j <= 0, empty(NS), L_app(Renorm(L, m, j - 1), NS, trans_mk(prob=t_prob(ns_at(L, j - 1)) / m, tgt=t_tgt(ns_at(L, j - 1)))))
# FilterLab(ns, best, i): the elements ns[k], k < i, whose label is in `best`, in order (rebuilt as (label, target))
FilterLab = spec('FilterLab', [NS, LSTR, INT], NS)


def _inlist(x, L):
    k = Int('k!il')
    return Exists([k], And(0 <= k, k < L_len(L, LSTR), L_arr(L, LSTR)[k] == x))


SPEC['FilterLab']['unfold'] = lambda ns, best, i: FilterLab(ns, best, i) == If(i <= 0, empty(NS), If(_inlist(t_lab(ns_at(ns, i - 1)), best), L_app(FilterLab(ns, best, i - 1), NS, trans_mk(lab=t_lab(ns_at(ns, i - 1)), tgt=t_tgt(ns_at(ns, i - 1)))), FilterLab(ns, best, i - 1)))

_PF = [('ns', NS), ('sl', SLT), ('X', RPT), ('i', INT)]


def _FA(ns, sl, X, i):
    return FilterAlive(ns, sl, X, i)


def _allq(n_, body):
    j = Int('j!fa')
    return ForAll([j], Implies(And(0 <= j, j < n_), body(j)))


# length facts
lemma('L_FA_len', _PF, lambda ns, sl, X, i: And(0 <= L_len(_FA(ns, sl, X, i), NS), L_len(_FA(ns, sl, X, i), NS) <= i), ind='i')
# every kept element is alive (no dead branch survives) and is an element of the original list
lemma('L_FA_alive', _PF, lambda ns, sl, X, i: _allq(L_len(_FA(ns, sl, X, i), NS), lambda j: X[L_arr(sl, SLT)[t_tgt(L_arr(_FA(ns, sl, X, i), NS)[j])]] != 0), ind='i',
      hints=lambda ns, sl, X, i: [LEMMAS['L_FA_len'](ns, sl, X, i - 1)])
# if nothing was dropped, every element is alive
lemma('L_FA_full', _PF, lambda ns, sl, X, i: Implies(L_len(_FA(ns, sl, X, i), NS) == i, And(_allq(i, lambda j: alive(ns, sl, X, j)), _allq(i, lambda j: L_arr(_FA(ns, sl, X, i), NS)[j] == ns_at(ns, j)))), ind='i',
      hints=lambda ns, sl, X, i: [LEMMAS['L_FA_len'](ns, sl, X, i - 1)])
# every alive element is kept (no transition between positive-probability states is lost): alive(k) => exists j. FA[j] == ns[k]
def _kept(ns, sl, X, i):
    k, j = Int('k!kp'), Int('j!kp')
    F = _FA(ns, sl, X, i)
    return ForAll([k], Implies(And(0 <= k, k < i, alive(ns, sl, X, k)), Exists([j], And(0 <= j, j < L_len(F, NS), L_arr(F, NS)[j] == ns_at(ns, k)))))


lemma('L_FA_keeps', _PF, _kept, ind='i', hints=lambda ns, sl, X, i: [LEMMAS['L_FA_len'](ns, sl, X, i - 1)])
# positive probabilities: the surviving mass is positive as soon as something survives
lemma('L_AliveMass_pos', _PF, lambda ns, sl, X, i: Implies(_allq(i, lambda j: t_prob(ns_at(ns, j)) > 0), And(AliveMass(ns, sl, X, i) >= 0, Implies(L_len(_FA(ns, sl, X, i), NS) > 0, AliveMass(ns, sl, X, i) > 0))), ind='i',
      hints=lambda ns, sl, X, i: [LEMMAS['L_FA_len'](ns, sl, X, i - 1)])
# SumP only looks at the prefix
lemma('L_SumP_ext', [('A', NS), ('B', NS), ('j', INT)], lambda A, B, j: Implies(_allq(j, lambda k: L_arr(A, NS)[k] == L_arr(B, NS)[k]), SumP(A, j) == SumP(B, j)), ind='j')
# the surviving mass is the probability sum of the filtered list
lemma('L_FA_sum', _PF, lambda ns, sl, X, i: SumP(_FA(ns, sl, X, i), L_len(_FA(ns, sl, X, i), NS)) == AliveMass(ns, sl, X, i), ind='i',
      hints=lambda ns, sl, X, i: [LEMMAS['L_FA_len'](ns, sl, X, i - 1), LEMMAS['L_SumP_ext'](_FA(ns, sl, X, i), _FA(ns, sl, X, i - 1), L_len(_FA(ns, sl, X, i - 1), NS))])
# Renorm: length, elements, probability sum
_PR = [('L', NS), ('m', REAL), ('j', INT)]
lemma('L_Renorm_len', _PR, lambda L, m, j: L_len(Renorm(L, m, j), NS) == j, ind='j')
lemma('L_Renorm_at', _PR, lambda L, m, j: _allq(j, lambda k: L_arr(Renorm(L, m, j), NS)[k] == trans_mk(prob=t_prob(ns_at(L, k)) / m, tgt=t_tgt(ns_at(L, k)))), ind='j',
      hints=lambda L, m, j: [LEMMAS['L_Renorm_len'](L, m, j - 1)])
lemma('L_Renorm_sum', _PR, lambda L, m, j: Implies(m != 0, SumP(Renorm(L, m, j), j) * m == SumP(L, j)), ind='j',
      hints=lambda L, m, j: [LEMMAS['L_Renorm_len'](L, m, j - 1), LEMMAS['L_Renorm_at'](L, m, j), LEMMAS['L_Renorm_at'](L, m, j - 1),
                             LEMMAS['L_SumP_ext'](Renorm(L, m, j), Renorm(L, m, j - 1), j - 1)])


# every kept element comes from the original list
def _from(ns, sl, X, i):
    k, j = Int('k!fr'), Int('j!fr')
    F = _FA(ns, sl, X, i)
    return ForAll([j], Implies(And(0 <= j, j < L_len(F, NS)), Exists([k], And(0 <= k, k < i, L_arr(F, NS)[j] == ns_at(ns, k)))))


lemma('L_FA_from', _PF, _from, ind='i', hints=lambda ns, sl, X, i: [LEMMAS['L_FA_len'](ns, sl, X, i - 1)])


# FilterLab: every kept element is (label, target) of an original element whose label is in `best`
def _fl_from(ns, best, i):
    k, j = Int('k!fl'), Int('j!fl')
    F = FilterLab(ns, best, i)
    return And(L_len(F, NS) >= 0, L_len(F, NS) <= i,
               ForAll([j], Implies(And(0 <= j, j < L_len(F, NS)), And(_inlist(t_lab(L_arr(F, NS)[j]), best),
                                                                     Exists([k], And(0 <= k, k < i, L_arr(F, NS)[j] == trans_mk(lab=t_lab(ns_at(ns, k)), tgt=t_tgt(ns_at(ns, k)))))))))


lemma('L_FL_from', [('ns', NS), ('best', LSTR), ('i', INT)], _fl_from, ind='i')


# ... and every original element whose label is in `best` is kept
def _fl_keeps(ns, best, i):
    k, j = Int('k!fk'), Int('j!fk')
    F = FilterLab(ns, best, i)
    return ForAll([k], Implies(And(0 <= k, k < i, _inlist(t_lab(ns_at(ns, k)), best)),
                               Exists([j], And(0 <= j, j < L_len(F, NS), L_arr(F, NS)[j] == trans_mk(lab=t_lab(ns_at(ns, k)), tgt=t_tgt(ns_at(ns, k)))))))


lemma('L_FL_keeps', [('ns', NS), ('best', LSTR), ('i', INT)], _fl_keeps, ind='i', hints=lambda ns, best, i: [LEMMAS['L_FL_from'](ns, best, i - 1)])

# ------------------------------------------------------------------ reward node steps (C02, C14)
# index of the LAST successor (among the first i) attaining the running maximum (>= scan) / minimum (<= scan, seeded with the first)
LastMax = spec('LastMax', [NS, SLT, RPT, INT], INT)
SPEC['LastMax']['unfold'] = lambda ns, sl, X, i: LastMax(ns, sl, X, i) == If(i <= 0, IntVal(-1), If(val(ns, sl, X, i - 1) >= MaxS(ns, sl, X, i - 1), i - 1, LastMax(ns, sl, X, i - 1)))
MinW0 = spec('MinW0', [NS, SLT, RPT, INT], REAL)
SPEC['MinW0']['unfold'] = lambda ns, sl, X, i: MinW0(ns, sl, X, i) == If(i <= 0, val(ns, sl, X, 0), If(val(ns, sl, X, i - 1) <= MinW0(ns, sl, X, i - 1), val(ns, sl, X, i - 1), MinW0(ns, sl, X, i - 1)))
LastMin = spec('LastMin', [NS, SLT, RPT, INT], INT)
SPEC['LastMin']['unfold'] = lambda ns, sl, X, i: LastMin(ns, sl, X, i) == If(i <= 0, IntVal(-1), If(val(ns, sl, X, i - 1) <= MinW0(ns, sl, X, i - 1), i - 1, LastMin(ns, sl, X, i - 1)))
# BW(class, reward, successors, state list, vector): the reward Bellman operator: 0 without transitions, else reward + max / min / weighted sum
BW = spec('BW', [INT, REAL, NS, SLT, RPT], REAL)
SPEC['BW']['unfold'] = lambda c, r, ns, sl, X: BW(c, r, ns, sl, X) == If(L_len(ns, NS) == 0, RealVal(0), r + If(c == P_ONE, MaxS(ns, sl, X, L_len(ns, NS)), If(c == P_TWO, MinW0(ns, sl, X, L_len(ns, NS)), SumS(ns, sl, X, L_len(ns, NS)))))
# FilterIn(ns, strat, i): the transitions (themselves) among the first i whose label is in strat
FilterIn = spec('FilterIn', [NS, LSTR, INT], NS)
SPEC['FilterIn']['unfold'] = lambda ns, st_, i: FilterIn(ns, st_, i) == If(i <= 0, empty(NS), If(_inlist(t_lab(ns_at(ns, i - 1)), st_), L_app(FilterIn(ns, st_, i - 1), NS, ns_at(ns, i - 1)), FilterIn(ns, st_, i - 1)))
# MinSel(ns, sl, X, strat, i, init): init lowered by the values of the first i successors whose label is in strat
MinSel = spec('MinSel', [NS, SLT, RPT, LSTR, INT, REAL], REAL)
SPEC['MinSel']['unfold'] = lambda ns, sl, X, st_, i, init: MinSel(ns, sl, X, st_, i, init) == If(i <= 0, init, If(And(_inlist(t_lab(ns_at(ns, i - 1)), st_), val(ns, sl, X, i - 1) < MinSel(ns, sl, X, st_, i - 1, init)), val(ns, sl, X, i - 1), MinSel(ns, sl, X, st_, i - 1, init)))
lemma('L_LastMax_range', _P, lambda ns, sl, X, i: Implies(And(i >= 1, val(ns, sl, X, 0) >= 0), And(0 <= LastMax(ns, sl, X, i), LastMax(ns, sl, X, i) < i)), ind='i')
lemma('L_LastMin_range', _P, lambda ns, sl, X, i: Implies(i >= 1, And(0 <= LastMin(ns, sl, X, i), LastMin(ns, sl, X, i) < i)), ind='i')
# the selected value is the minimum over the selected successors (and over init)
def _minsel(ns, sl, X, st_, i, init):
    k = Int('k!ms')
    M = MinSel(ns, sl, X, st_, i, init)
    return And(M <= init, ForAll([k], Implies(And(0 <= k, k < i, _inlist(t_lab(ns_at(ns, k)), st_)), M <= val(ns, sl, X, k))),
               Or(M == init, Exists([k], And(0 <= k, k < i, _inlist(t_lab(ns_at(ns, k)), st_), M == val(ns, sl, X, k)))))


lemma('L_MinSel_is_min', [('ns', NS), ('sl', SLT), ('X', RPT), ('st_', LSTR), ('i', INT), ('init', REAL)], _minsel, ind='i')
# the first selected transition exists as soon as some label is in the strategy list, and is one of the successors
def _fin(ns, st_, i):
    k = Int('k!fi')
    F = FilterIn(ns, st_, i)
    return And(L_len(F, NS) >= 0, Implies(Exists([k], And(0 <= k, k < i, _inlist(t_lab(ns_at(ns, k)), st_))), L_len(F, NS) > 0),
               Implies(L_len(F, NS) > 0, Exists([k], And(0 <= k, k < i, _inlist(t_lab(ns_at(ns, k)), st_), L_arr(F, NS)[0] == ns_at(ns, k)))))


lemma('L_FilterIn_first', [('ns', NS), ('st_', LSTR), ('i', INT)], _fin, ind='i')


def _argeq_from(ns, sl, X, i, m):
    q, k = Int('q!af'), Int('k!af')
    A = ArgEqR(ns, sl, X, i, m)
    return And(L_len(A, LSTR) >= 0, ForAll([q], Implies(And(0 <= q, q < L_len(A, LSTR)), Exists([k], And(0 <= k, k < i, t_lab(ns_at(ns, k)) == L_arr(A, LSTR)[q])))))


lemma('L_ArgEqR_from', _P + [('m', REAL)], _argeq_from, ind='i')

# ---- reward operator: Lipschitz and sign lemmas
lemma('L_MinW0_lip', _PL, lambda ns, sl, A, B, e, i: Implies(And(_near(A, B, e), e >= 0), _absr(MinW0(ns, sl, A, i) - MinW0(ns, sl, B, i)) <= e), ind='i')


def _nonneg(A, sl):
    t = Int('t!nn')
    return ForAll([t], Implies(And(0 <= t, t < L_len(sl, SLT)), A[L_arr(sl, SLT)[t]] >= 0))


lemma('L_MinW0_nonneg', _PB, lambda ns, sl, A, i: Implies(And(_inrange(ns, sl, If(i >= 1, i, 1)), _nonneg(A, sl)), MinW0(ns, sl, A, i) >= 0), ind='i')
lemma('L_MaxS_nonneg', _PB, lambda ns, sl, A, i: MaxS(ns, sl, A, i) >= 0, ind='i')
lemma('L_SumS_nonneg', _PB, lambda ns, sl, A, i: Implies(And(_inrange(ns, sl, i), _nonneg(A, sl), _pnonneg(ns, i)), SumS(ns, sl, A, i) >= 0), ind='i')


def _properW(c, ns):
    return And(0 <= c, c <= 2, Implies(And(c == P_PROB, L_len(ns, NS) > 0), And(_pnonneg(ns, L_len(ns, NS)), SumP(ns, L_len(ns, NS)) == 1)))


_PBW = [('c', INT), ('r', REAL), ('ns', NS), ('sl', SLT), ('A', AR), ('B', AR)]
lemma('L_BW_lip', _PBW + [('e', REAL)], lambda c, r, ns, sl, A, B, e: Implies(And(_near(A, B, e), e >= 0, _properW(c, ns)), _absr(BW(c, r, ns, sl, A) - BW(c, r, ns, sl, B)) <= e),
      hints=lambda c, r, ns, sl, A, B, e: [LEMMAS[n](ns, sl, A, B, e, L_len(ns, NS)) for n in ('L_MaxS_lip', 'L_MinW0_lip', 'L_SumS_lip')] + [L_len(ns, NS) >= 0])
lemma('L_BW_nonneg', [('c', INT), ('r', REAL), ('ns', NS), ('sl', SLT), ('A', AR)],
      lambda c, r, ns, sl, A: Implies(And(r >= 0, _inrange(ns, sl, L_len(ns, NS)), _nonneg(A, sl), _properW(c, ns)), BW(c, r, ns, sl, A) >= 0),
      hints=lambda c, r, ns, sl, A: [LEMMAS[n](ns, sl, A, L_len(ns, NS)) for n in ('L_MaxS_nonneg', 'L_MinW0_nonneg', 'L_SumS_nonneg')] + [L_len(ns, NS) >= 0])


def _zero_succ(ns, sl, X, i):
    k = Int('k!z')
    return ForAll([k], Implies(And(0 <= k, k < i), val(ns, sl, X, k) == 0))


lemma('L_MaxS_zero', _PB, lambda ns, sl, A, i: Implies(_zero_succ(ns, sl, A, i), MaxS(ns, sl, A, i) == 0), ind='i')
lemma('L_MinS_zero', _PB, lambda ns, sl, A, i: Implies(And(_zero_succ(ns, sl, A, i), i >= 1), MinS(ns, sl, A, i) == 0), ind='i')
lemma('L_SumS_zero', _PB, lambda ns, sl, A, i: Implies(_zero_succ(ns, sl, A, i), SumS(ns, sl, A, i) == 0), ind='i')
# a state all of whose successors have value 0 has Bellman value 0 (needs at least one successor for a minimising state)
lemma('L_BR_zero', [('c', INT), ('ns', NS), ('sl', SLT), ('A', AR)],
      lambda c, ns, sl, A: Implies(And(_zero_succ(ns, sl, A, L_len(ns, NS)), L_len(ns, NS) >= 1, 0 <= c, c <= 2), BR(c, ns, sl, A) == 0),
      hints=lambda c, ns, sl, A: [LEMMAS[n](ns, sl, A, L_len(ns, NS)) for n in ('L_MaxS_zero', 'L_MinS_zero', 'L_SumS_zero')])


# ---------------------------------------------------------------------------------------------------------------------
# C13 (transition order): the value-level spec functions do not depend on the order in which a state's transitions are
# listed, and the list-level ones have an order-free membership. The contracts prove `code(list) == F(list)` for every list,
# so `code(permuted list)` vs `code(list)` reduces to these lemmas about F. Invariance is proved for the exchange of two
# NEIGHBOURS (every reordering is a product of such exchanges); membership characterisations hold for any reordering.
from z3 import Store   # noqa: E402


def Swp(ns, j):
    """ns with the transitions at positions j and j+1 exchanged"""
    a = L_arr(ns, NS)
    return L_mk(NS, Store(Store(a, j, a[j + 1]), j + 1, a[j]), L_len(ns, NS))


def _pre(A, B, i):
    k = Int('k!pre')
    return ForAll([k], Implies(And(0 <= k, k < i), L_arr(A, NS)[k] == L_arr(B, NS)[k]))


_VAL_FUNS = {'MaxS': MaxS, 'MinS': MinS, 'SumS': SumS, 'MaxR': MaxR, 'MinR': MinR}
PERM_LEMMAS = []
for _n, _F in _VAL_FUNS.items():
    # only the first i transitions matter
    lemma(f'L_{_n}_pre', [('A', NS), ('B', NS), ('sl', SLT), ('X', RPT), ('i', INT)],
          (lambda F: lambda A, B, sl, X, i: Implies(_pre(A, B, i), F(A, sl, X, i) == F(B, sl, X, i)))(_F), ind='i')
    # exchanging two neighbours among the first i transitions changes nothing
    lemma(f'L_{_n}_swap', [('ns', NS), ('sl', SLT), ('X', RPT), ('j', INT), ('i', INT)],
          (lambda F: lambda ns, sl, X, j, i: Implies(And(0 <= j, j + 1 < i), F(Swp(ns, j), sl, X, i) == F(ns, sl, X, i)))(_F), ind='i',
          hints=(lambda n: lambda ns, sl, X, j, i: [LEMMAS[f'L_{n}_pre'](Swp(ns, j), ns, sl, X, j)])(_n))
    PERM_LEMMAS += [f'L_{_n}_pre', f'L_{_n}_swap']
lemma('L_SumP_swap', [('ns', NS), ('j', INT), ('i', INT)], lambda ns, j, i: Implies(And(0 <= j, j + 1 < i), SumP(Swp(ns, j), i) == SumP(ns, i)), ind='i',
      hints=lambda ns, j, i: [LEMMAS['L_SumP_ext'](Swp(ns, j), ns, j)])
PERM_LEMMAS.append('L_SumP_swap')


def _in_labels(L, lab):
    k = Int('k!lab')
    return Exists([k], And(0 <= k, k < L_len(L, LSTR), L_arr(L, LSTR)[k] == lab))


def _in_trans(L, t):
    k = Int('k!tr')
    return Exists([k], And(0 <= k, k < L_len(L, NS), L_arr(L, NS)[k] == t))


# a label is in the arg-list iff SOME transition among the first i carries it and has the rounded value m (no position involved)
lemma('L_ArgEqR_mem', _P + [('m', REAL), ('lab', STR)],
      lambda ns, sl, X, i, m, lab: And(L_len(ArgEqR(ns, sl, X, i, m), LSTR) >= 0,
                                        _in_labels(ArgEqR(ns, sl, X, i, m), lab) == Exists([Int('k!am')], And(0 <= Int('k!am'), Int('k!am') < i, t_lab(ns_at(ns, Int('k!am'))) == lab,
                                                                                                       round6(val(ns, sl, X, Int('k!am'))) == m))), ind='i')
# a transition is kept by the conditioning iff it is among the first i and leads to a live state (no position involved)
lemma('L_FA_mem', _P + [('t', TRANS)],
      lambda ns, sl, X, i, t: And(L_len(FilterAlive(ns, sl, X, i), NS) >= 0,
                                   _in_trans(FilterAlive(ns, sl, X, i), t) == Exists([Int('k!fm')], And(0 <= Int('k!fm'), Int('k!fm') < i, ns_at(ns, Int('k!fm')) == t, alive(ns, sl, X, Int('k!fm'))))), ind='i')
PERM_LEMMAS += ['L_ArgEqR_mem', 'L_FA_mem']

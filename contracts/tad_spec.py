"""Specification vocabulary for tad.py (DESIGN 5): spec functions (uninterpreted + defining equations unfolded
by the generator) and the lemmas about them. Written from the property statements, not from the code."""
from z3 import (If, And, Or, Not, Implies, ForAll, Exists, IntVal, RealVal, BoolVal, StringVal, Function, RealSort, IntSort,
                Const, Int, Real, MultiPattern)
from pyvc.types import *
from pyvc.engine import spec, SPEC, AXIOMS, LEMMAS
from pyvc.lemmas import lemma

NS = LIST(TRANS)                 # a transition list value
SLT = LIST(REF('Node'))          # the solver's state list (value list of object references)
RPT = ARR(INT, REAL)             # a per-object real vector (heap field array)
LSTR = LIST(STR)

P_PROB, P_ONE, P_TWO = 0, 1, 2   # class tags


def ns_at(ns, k):
    return L_arr(ns, NS)[k]


def node_of(ns, sl, k):
    return L_arr(sl, SLT)[t_tgt(ns_at(ns, k))]


def val(ns, sl, X, k):
    return X[node_of(ns, sl, k)]


# ---- round(x, 6): uninterpreted, with the axioms of A-ROUND
round6 = spec('round6', [REAL], REAL)
_x, _y = Real('x!r'), Real('y!r')
AXIOMS['round6'] = And(
    ForAll([_x, _y], Implies(_x <= _y, round6(_x) <= round6(_y)), patterns=[MultiPattern(round6(_x), round6(_y))]),
    ForAll([_x], And(round6(_x) - _x <= RealVal('5/10000000'), _x - round6(_x) <= RealVal('5/10000000')), patterns=[round6(_x)]),
    round6(RealVal(0)) == 0, round6(RealVal(1)) == 1)

# ---- reachability Bellman operators over the first i successors
MaxS = spec('MaxS', [NS, SLT, RPT, INT], REAL)
SPEC['MaxS']['unfold'] = lambda ns, sl, X, i: MaxS(ns, sl, X, i) == If(i <= 0, RealVal(0), If(val(ns, sl, X, i - 1) > MaxS(ns, sl, X, i - 1), val(ns, sl, X, i - 1), MaxS(ns, sl, X, i - 1)))
MinS = spec('MinS', [NS, SLT, RPT, INT], REAL)
SPEC['MinS']['unfold'] = lambda ns, sl, X, i: MinS(ns, sl, X, i) == If(i <= 0, RealVal(1), If(val(ns, sl, X, i - 1) < MinS(ns, sl, X, i - 1), val(ns, sl, X, i - 1), MinS(ns, sl, X, i - 1)))
SumS = spec('SumS', [NS, SLT, RPT, INT], REAL)
SPEC['SumS']['unfold'] = lambda ns, sl, X, i: SumS(ns, sl, X, i) == If(i <= 0, RealVal(0), SumS(ns, sl, X, i - 1) + val(ns, sl, X, i - 1) * t_prob(ns_at(ns, i - 1)))
# BR(class, successors, state list, vector): the operator the owner of the state selects, over all successors
BR = spec('BR', [INT, NS, SLT, RPT], REAL)
SPEC['BR']['unfold'] = lambda c, ns, sl, X: BR(c, ns, sl, X) == If(c == P_ONE, MaxS(ns, sl, X, L_len(ns, NS)), If(c == P_TWO, MinS(ns, sl, X, L_len(ns, NS)), SumS(ns, sl, X, L_len(ns, NS))))

# ---- rounded extrema and arg-lists (C04, C05)
MaxR = spec('MaxR', [NS, SLT, RPT, INT], REAL)    # max floored at 0 of round6(value)
SPEC['MaxR']['unfold'] = lambda ns, sl, X, i: MaxR(ns, sl, X, i) == If(i <= 0, RealVal(0), If(round6(val(ns, sl, X, i - 1)) > MaxR(ns, sl, X, i - 1), round6(val(ns, sl, X, i - 1)), MaxR(ns, sl, X, i - 1)))
MinR = spec('MinR', [NS, SLT, RPT, INT], REAL)    # min capped at 1 of round6(value)
SPEC['MinR']['unfold'] = lambda ns, sl, X, i: MinR(ns, sl, X, i) == If(i <= 0, RealVal(1), If(round6(val(ns, sl, X, i - 1)) < MinR(ns, sl, X, i - 1), round6(val(ns, sl, X, i - 1)), MinR(ns, sl, X, i - 1)))
MinR0 = spec('MinR0', [NS, SLT, RPT, INT], REAL)  # min of round6(value) over the first i >= 1 successors, seeded with the first
SPEC['MinR0']['unfold'] = lambda ns, sl, X, i: MinR0(ns, sl, X, i) == If(i <= 0, round6(val(ns, sl, X, 0)), If(round6(val(ns, sl, X, i - 1)) < MinR0(ns, sl, X, i - 1), round6(val(ns, sl, X, i - 1)), MinR0(ns, sl, X, i - 1)))
# ArgEqR(ns, sl, X, i, m): labels, in transition order, of those of the first i successors whose rounded value equals m
ArgEqR = spec('ArgEqR', [NS, SLT, RPT, INT, REAL], LSTR)
SPEC['ArgEqR']['unfold'] = lambda ns, sl, X, i, m: ArgEqR(ns, sl, X, i, m) == If(i <= 0, empty(LSTR), If(round6(val(ns, sl, X, i - 1)) == m, L_app(ArgEqR(ns, sl, X, i - 1, m), LSTR, t_lab(ns_at(ns, i - 1))), ArgEqR(ns, sl, X, i - 1, m)))

_P = [('ns', NS), ('sl', SLT), ('X', RPT), ('i', INT)]
# every rounded value among the first i is <= MaxR / >= MinR / >= MinR0
lemma('L_ArgEqR_empty_above', _P + [('m', REAL)], lambda ns, sl, X, i, m: Implies(m > MaxR(ns, sl, X, i), ArgEqR(ns, sl, X, i, m) == empty(LSTR)), ind='i')
lemma('L_ArgEqR_empty_below', _P + [('m', REAL)], lambda ns, sl, X, i, m: Implies(m < MinR(ns, sl, X, i), ArgEqR(ns, sl, X, i, m) == empty(LSTR)), ind='i')
lemma('L_ArgEqR_empty_below0', _P + [('m', REAL)], lambda ns, sl, X, i, m: Implies(And(i >= 1, m < MinR0(ns, sl, X, i)), ArgEqR(ns, sl, X, i, m) == empty(LSTR)), ind='i',
      hints=lambda ns, sl, X, i, m: [ArgEqR(ns, sl, X, 0, m) == empty(LSTR)])

"""Static obligations over the real AST (labelled `static` in the evidence; not SMT)."""
import ast


def _fn(mods, mod, qual):
    return mods[mod].find(qual)


def _loggers(tree):
    """module-level names bound (once) to logging.getLogger(...)"""
    out = set()
    for n in tree.body:
        if isinstance(n, ast.Assign) and isinstance(n.value, ast.Call) and ast.unparse(n.value.func) == 'logging.getLogger':
            out |= {t.id for t in n.targets if isinstance(t, ast.Name)}
    return out


def _uses(node, name):
    out = []
    for x in ast.walk(node):
        if isinstance(x, ast.Name) and x.id == name and isinstance(x.ctx, ast.Load):
            out.append(x)
        if isinstance(x, ast.Attribute) and x.attr == name and isinstance(x.ctx, ast.Load):
            out.append(x)
    return out


def prune_flag_independence(target):
    """non-interference: the value assigned to `target` in StochasticGame.solve does not depend on prune_states.
    Checked shape: in solve, the flag is only passed to solve_reachability or tested AFTER `target` was assigned; in
    solve_reachability / value_iteration_reachability it is only passed on or tested by an `if` whose body only raises."""
    def check(mods):
        solve = _fn(mods, 'tad', 'StochasticGame.solve')
        if solve is None:
            return None, 'StochasticGame.solve not found'
        assign_line = None
        for st in solve.body:
            if isinstance(st, ast.Assign):
                names = [n.id for t in st.targets for n in ast.walk(t) if isinstance(n, ast.Name)]
                if target in names:
                    assign_line = st.end_lineno
        if assign_line is None:
            return False, f'{target} is not assigned at the top level of solve'
        parents = {}
        for fq in ('StochasticGame.solve', 'Solver.solve_reachability', 'Solver.value_iteration_reachability', 'Solver._get_reachability_strategies'):
            fn = _fn(mods, 'tad', fq)
            if fn is None:
                return None, f'{fq} not found'
            for p in ast.walk(fn):
                for ch in ast.iter_child_nodes(p):
                    parents[ch] = p
            for u in _uses(fn, 'prune_states'):
                # walk up to the enclosing statement
                node = u
                ok = False
                while node in parents:
                    par = parents[node]
                    if isinstance(par, ast.Call) and isinstance(par.func, ast.Attribute) and isinstance(par.func.value, ast.Name) \
                            and (par.func.value.id == 'logging' or par.func.value.id in _loggers(mods['tad'].tree)) \
                            and par.func.attr in ('debug', 'info', 'warning', 'error', 'critical', 'log', 'exception') and isinstance(parents.get(par), ast.Expr):
                        ok = True       # the flag is only written to the log: no influence on any value
                        break
                    if isinstance(par, ast.Call) and (node in par.args or any(k.value is node or k is node for k in par.keywords)):
                        f = par.func
                        nm = f.attr if isinstance(f, ast.Attribute) else getattr(f, 'id', '')
                        if nm in ('solve_reachability', 'value_iteration_reachability'):
                            ok = True
                        break
                    if isinstance(par, ast.If) and (node is par.test or any(node is x for x in ast.walk(par.test))):
                        if fq == 'StochasticGame.solve':
                            ok = par.lineno > assign_line and par in solve.body
                        else:
                            ok = all(isinstance(b, ast.Raise) for b in par.body) and not par.orelse
                        break
                    node = par
                if not ok:
                    return False, f'{fq}: use of prune_states at line {u.lineno} can influence {target}'
        return True, f'prune_states reaches {target} only through raise-only guards and tests after line {assign_line}'
    return check


def determinism(functions, allow=()):
    """the cone reads nothing but its arguments: no random/time/id/hash/global/set-iteration/os/input"""
    def check(mods):
        bad = []
        for mod, qual in functions:
            fn = _fn(mods, mod, qual)
            if fn is None:
                return None, f'{mod}.{qual} not found'
            for x in ast.walk(fn):
                if isinstance(x, (ast.Global, ast.Nonlocal)):
                    bad.append(f'{qual}: global/nonlocal at line {x.lineno}')
                if isinstance(x, ast.Name) and x.id in ('random', 'time', 'id', 'hash', 'os', 'input', 'open', 'globals', 'vars') and x.id not in allow:
                    bad.append(f'{qual}: use of {x.id} at line {x.lineno}')
                if isinstance(x, ast.For) and isinstance(x.iter, ast.Call) and getattr(x.iter.func, 'id', '') in ('set', 'frozenset'):
                    bad.append(f'{qual}: iteration over a set at line {x.lineno}')
        # module-level mutable state written by the functions
        for modname in {m for m, _ in functions}:
            tree = mods[modname].tree
            for n in tree.body:
                if isinstance(n, ast.Assign) and isinstance(n.value, (ast.Dict, ast.List, ast.Set, ast.Call)):
                    names = [t.id for t in n.targets if isinstance(t, ast.Name)]
                    if any(nm.isupper() for nm in names) and isinstance(n.value, (ast.List,)):
                        continue      # constant tables such as MOVE_SINTAX
                    if isinstance(n.value, ast.Call) and ast.unparse(n.value.func) == 'logging.getLogger':
                        continue      # a logger: written to, never read back by the cone
                    used = False      # an object no scanned function mentions cannot carry state between their calls
                    for mod2, qual2 in functions:
                        f2 = _fn(mods, mod2, qual2)
                        if mod2 == modname and f2 is not None and any(isinstance(y, ast.Name) and y.id in names for y in ast.walk(f2)):
                            used = True
                    if not used:
                        continue
                    bad.append(f'{modname}: module-level mutable object {names} (possible cross-call state)')
        return (not bad), ('; '.join(bad) if bad else f'{len(functions)} functions scanned: no hidden inputs or cross-call state')
    return check


def no_self_call(mod, fn):
    def check(mods):
        f = _fn(mods, mod, fn)
        if f is None:
            return None, f'{mod}.{fn} not found'
        for x in ast.walk(f):
            if isinstance(x, ast.Call) and isinstance(x.func, ast.Name) and x.func.id == fn:
                return False, f'{fn} calls itself at line {x.lineno}: recursion depth grows with the graph'
        return True, f'{fn} contains no call to itself'
    return check


def seeded_randomness(mod, fn, callees):
    """reproducibility: random.seed(seed) is executed before any draw, every source of randomness is the random module,
    and nothing else (time, os, global state) is read"""
    def check(mods):
        f = _fn(mods, mod, fn)
        if f is None:
            return None, f'{mod}.{fn} not found'
        first_draw = None
        seed_line = None
        for x in ast.walk(f):
            if isinstance(x, ast.Call) and isinstance(x.func, ast.Attribute) and isinstance(x.func.value, ast.Name) and x.func.value.id == 'random':
                if x.func.attr == 'seed':
                    if not (x.args and isinstance(x.args[0], ast.Name) and x.args[0].id == 'seed'):
                        return False, f'random.seed is not called with the seed parameter (line {x.lineno})'
                    seed_line = x.lineno if seed_line is None else min(seed_line, x.lineno)
                else:
                    first_draw = x.lineno if first_draw is None else min(first_draw, x.lineno)
            if isinstance(x, ast.Call) and isinstance(x.func, ast.Name) and x.func.id in callees:
                first_draw = x.lineno if first_draw is None else min(first_draw, x.lineno)
        if seed_line is None:
            return False, 'random.seed(seed) is never called'
        if first_draw is not None and first_draw <= seed_line:
            return False, f'a random draw at line {first_draw} precedes random.seed at line {seed_line}'
        # seed must be at top level of the function body (not under a condition or loop)
        top = [st for st in f.body if isinstance(st, ast.Expr) and isinstance(st.value, ast.Call) and getattr(st.value.func, 'attr', '') == 'seed']
        if not top:
            return False, 'random.seed(seed) is not an unconditional top-level statement'
        ok, detail = determinism([(mod, fn)] + [(mod, c) for c in callees], allow=('random',))(mods)
        return ok, f'random.seed(seed) at line {seed_line} precedes the first draw (line {first_draw}); ' + detail
    return check


def solver_constants(mods):
    """the contracts of the strategy routines assume floor == 6 and threshold == 1e-6: evaluated here from the real source by the
    host interpreter (closed expressions over literals and the math module only): the threshold solve passes to Solver, the floor
    Solver.__init__ derives from it, and the digit count hard-coded in PlayerTwo.value_iteration_rewards"""
    import math
    solve = _fn(mods, 'tad', 'StochasticGame.solve')
    init = _fn(mods, 'tad', 'Solver.__init__')
    p2 = _fn(mods, 'tad', 'PlayerTwo.value_iteration_rewards')
    if None in (solve, init, p2):
        return None, 'solve / Solver.__init__ / PlayerTwo.value_iteration_rewards not found'
    thr = None
    for x in ast.walk(solve):
        if isinstance(x, ast.Call) and getattr(x.func, 'id', '') == 'Solver':
            for kw in x.keywords:
                if kw.arg == 'threshold':
                    thr = kw.value
            if thr is None and len(x.args) >= 2:
                thr = x.args[1]
            if thr is None:
                d = [dflt for a, dflt in zip(init.args.args[::-1], init.args.defaults[::-1]) if a.arg == 'threshold']
                thr = d[0] if d else None
    if thr is None:
        return False, 'cannot find the threshold solve passes to Solver'
    def closed(e):
        return all(isinstance(n, (ast.Constant, ast.BinOp, ast.UnaryOp, ast.operator, ast.unaryop, ast.Expression, ast.Call, ast.Attribute, ast.Name, ast.Load)) for n in ast.walk(e))
    try:
        tv = eval(compile(ast.Expression(thr), '<thr>', 'eval'), {'__builtins__': {}}, {})
    except Exception as e:
        return False, f'threshold expression is not a closed constant: {e}'
    fl = None
    for st in init.body:
        if isinstance(st, ast.Assign) and isinstance(st.targets[0], ast.Attribute) and st.targets[0].attr == 'floor':
            if not closed(st.value):
                return False, 'floor is not computed by a closed expression'
            fl = eval(compile(ast.Expression(st.value), '<floor>', 'eval'), {'__builtins__': {}, 'math': math, 'abs': abs, 'round': round, 'int': int}, {'threshold': tv})
    digits = []
    for x in ast.walk(p2):
        if isinstance(x, ast.Call) and getattr(x.func, 'attr', '') == 'get_worst_strategies_reachability' and len(x.args) == 2:
            try:
                digits.append(ast.literal_eval(x.args[1]))
            except Exception:
                a1 = x.args[1]
                consts = mods['tad'].consts          # a module-level constant bound once to a literal is read through
                bound_once = isinstance(a1, ast.Name) and sum(1 for n in ast.walk(mods['tad'].tree) if isinstance(n, ast.Name) and n.id == a1.id and isinstance(n.ctx, ast.Store)) == 1
                if bound_once and a1.id in consts and not any(isinstance(n, ast.Global) for n in ast.walk(mods['tad'].tree)):
                    digits.append(consts[a1.id])
                else:
                    return False, 'digit count passed by PlayerTwo.value_iteration_rewards is neither a literal nor a module constant bound once'
    ok = tv == 1e-06 and fl == 6 and digits == [6]
    return ok, f'solve passes threshold={tv!r}; Solver.__init__ derives floor={fl!r}; PlayerTwo.value_iteration_rewards rounds to {digits} digits (the contracts require 1e-06 / 6 / [6])'


def lean_meta(mods):
    """the second-order meta-lemmas (least fixed point characterisation of reachability, inversion of forward reachability)
    are checked by Lean 4 on every run: exit status 0, no `sorry`, axioms printed"""
    import os, subprocess
    path = os.path.join(os.path.dirname(os.path.dirname(os.path.abspath(__file__))), 'lean', 'Meta.lean')
    try:
        p = subprocess.run(['lean', path], capture_output=True, text=True, timeout=300)
    except Exception as e:
        return None, f'lean could not be run: {e}'
    out = (p.stdout + p.stderr).strip()
    if p.returncode != 0 or 'sorryAx' in out or 'error' in out:
        return False, 'lean/Meta.lean does not check: ' + out[-300:]
    import re
    need = ['M_LFP', 'M_LFP_inv', 'M_PROGRESS', 'From0_inv', 'M_PERM', 'M_PERM_pred']
    seen = {}
    for l in out.splitlines():
        m = re.match(r"'(\w+)' (depends on axioms: \[(.*)\]|does not depend on any axioms)", l)
        if m:
            seen[m.group(1)] = [a.strip() for a in (m.group(3) or '').split(',') if a.strip()]
    missing = [n for n in need if n not in seen]
    bad = {n: a for n, a in seen.items() if set(a) - {'propext', 'Quot.sound', 'Classical.choice'}}
    if missing or bad:
        return False, f'lean/Meta.lean: theorems not reported {missing}; non-standard axioms {bad}'
    return True, 'lean/Meta.lean checked by Lean 4 (no sorry): ' + '; '.join(l for l in out.splitlines() if 'axioms' in l)


def parser_declares(mod, expected):
    """A-EXT assumes that the object argparse returns carries, for every field the contracts read, a value of the field's declared
    type (int / IEEE double / bool / str). This obligation ties that assumption to the REAL `init_parser`: it must return the parser
    it created, and the set of options it declares -- destination name (first long option, dashes to underscores, or `dest=`),
    `type=` resp. `action='store_true'` -- must be exactly `expected` ({dest: 'int' | 'float' | 'str' | 'bool'}); every
    add_argument call must be a plain call on that parser with literal option strings (anything else is outside the reading)."""
    def check(mods):
        f = _fn(mods, mod, 'init_parser')
        if f is None:
            return None, f'{mod}.init_parser not found'
        pname = None
        found = {}
        for n in ast.walk(f):
            if isinstance(n, ast.Assign) and isinstance(n.value, ast.Call) and ast.unparse(n.value.func) == 'argparse.ArgumentParser':
                if pname is not None or len(n.targets) != 1 or not isinstance(n.targets[0], ast.Name):
                    return False, 'more than one ArgumentParser / not bound to a plain name'
                pname = n.targets[0].id
        if pname is None:
            return False, 'no argparse.ArgumentParser(...) bound in init_parser'
        rets = [n for n in ast.walk(f) if isinstance(n, ast.Return)]
        if len(rets) != 1 or not isinstance(rets[0].value, ast.Name) or rets[0].value.id != pname:
            return False, 'init_parser does not return the parser it created'
        for n in ast.walk(f):
            if isinstance(n, ast.Call) and isinstance(n.func, ast.Attribute) and isinstance(n.func.value, ast.Name) and n.func.value.id == pname:
                if n.func.attr != 'add_argument':
                    return False, f'parser method {n.func.attr} is outside the reading'
                opts = [a.value for a in n.args if isinstance(a, ast.Constant) and isinstance(a.value, str)]
                if len(opts) != len(n.args) or not opts:
                    return False, f'add_argument at line {n.lineno}: option strings are not literals'
                kw = {k.arg: k.value for k in n.keywords}
                if None in kw:
                    return False, f'add_argument at line {n.lineno}: **kwargs'
                longs = [o for o in opts if o.startswith('--')]
                dest = (kw['dest'].value if 'dest' in kw and isinstance(kw['dest'], ast.Constant) else
                        (longs[0][2:] if longs else opts[0].lstrip('-')).replace('-', '_'))
                if set(kw) - {'type', 'required', 'default', 'help', 'action', 'dest'}:
                    return False, f'add_argument for {dest}: keyword(s) {sorted(set(kw) - {"type", "required", "default", "help", "action", "dest"})} outside the reading (nargs, choices, const change what is returned)'
                if 'action' in kw:
                    if not (isinstance(kw['action'], ast.Constant) and kw['action'].value == 'store_true') or 'type' in kw:
                        return False, f'add_argument for {dest}: action other than store_true'
                    if 'default' in kw and not (isinstance(kw['default'], ast.Constant) and kw['default'].value is False):
                        return False, f'add_argument for {dest}: store_true with a default other than False'
                    ty = 'bool'
                else:
                    ty = ast.unparse(kw['type']) if 'type' in kw else 'str'
                    if 'default' in kw and isinstance(kw['default'], ast.Constant) and kw['default'].value is not None \
                            and type(kw['default'].value).__name__ != ty:
                        return False, f'add_argument for {dest}: default {kw["default"].value!r} is not of the declared type {ty}'
                if dest in found:
                    return False, f'option {dest} declared twice'
                found[dest] = ty
        ok = found == expected
        return ok, (f'init_parser declares {found}' + ('' if ok else f'; the contracts assume {expected}'))
    return check


def writer_tail_idiom(mod, fns, file_param='my_file'):
    """write_robot_A/B/C are verified up to `game = {...}` (the dictionary's values are what the cut conditions constrain). What
    follows is TEXT, outside the solver theories; this obligation pins its shape so that the bounded round-trip check is about
    pretty-printing only: after the (single, top-level, last) assignment `game = {<the 4 literal keys>: <any expressions>}` every remaining
    statement is `<file>.write(E)` with E a string literal or `str(game).replace(c1, c2)...` whose arguments are string constants
    (literals, module constants bound once to string literals, or `+` of those); `game` is not touched in between."""
    def check(mods):
        import ast as _a
        consts = {}
        tree = mods[mod].tree

        def _lit(e):        # a string literal, an earlier module string constant, `+` of those, or literal * int
            if isinstance(e, _a.Constant) and isinstance(e.value, str):
                return True
            if isinstance(e, _a.Name):
                return e.id in consts
            if isinstance(e, _a.BinOp) and isinstance(e.op, _a.Add):
                return _lit(e.left) and _lit(e.right)
            if isinstance(e, _a.BinOp) and isinstance(e.op, _a.Mult):
                return (_lit(e.left) and isinstance(e.right, _a.Constant) and isinstance(e.right.value, int)) or \
                       (_lit(e.right) and isinstance(e.left, _a.Constant) and isinstance(e.left.value, int))
            return False
        for n in tree.body:
            if isinstance(n, _a.Assign) and len(n.targets) == 1 and isinstance(n.targets[0], _a.Name) and _lit(n.value):
                consts[n.targets[0].id] = consts.get(n.targets[0].id, 0) + 1
        stores = {}
        for n in _a.walk(tree):
            if isinstance(n, _a.Name) and isinstance(n.ctx, _a.Store):
                stores[n.id] = stores.get(n.id, 0) + 1

        def strconst(e):
            if isinstance(e, _a.Constant) and isinstance(e.value, str):
                return True
            if isinstance(e, _a.Name):
                return consts.get(e.id) == 1 and stores.get(e.id) == 1
            if isinstance(e, _a.BinOp) and isinstance(e.op, _a.Add):
                return strconst(e.left) and strconst(e.right)
            return False

        def text_of_game(e, gname, textvars=()):
            if isinstance(e, _a.Call) and isinstance(e.func, _a.Attribute) and e.func.attr == 'replace' and len(e.args) == 2 and not e.keywords \
                    and all(strconst(a) for a in e.args):
                return text_of_game(e.func.value, gname, textvars)
            if isinstance(e, _a.Name) and e.id in textvars:
                return True
            if isinstance(e, _a.Call) and isinstance(e.func, _a.Name) and e.func.id in helpers and len(e.args) == 1 and not e.keywords:
                return isinstance(e.args[0], _a.Name) and e.args[0].id == gname          # a one-line formatting helper applied to the dictionary
            return isinstance(e, _a.Call) and isinstance(e.func, _a.Name) and e.func.id == 'str' and len(e.args) == 1 and not e.keywords \
                and isinstance(e.args[0], _a.Name) and e.args[0].id == gname
        # module-level helpers `def h(p): [docstring]; return str(p).replace(const, const)...` bound once
        helpers = set()
        for n in tree.body:
            if isinstance(n, _a.FunctionDef) and len(n.args.args) == 1 and not n.args.vararg and not n.args.kwarg and not n.args.kwonlyargs and not n.decorator_list \
                    and stores.get(n.name, 0) == 0 and sum(1 for m in tree.body if isinstance(m, _a.FunctionDef) and m.name == n.name) == 1:
                body = [b for b in n.body if not (isinstance(b, _a.Expr) and isinstance(b.value, _a.Constant))]
                if len(body) == 1 and isinstance(body[0], _a.Return) and body[0].value is not None and text_of_game(body[0].value, n.args.args[0].arg):
                    helpers.add(n.name)
        if any(isinstance(n, (_a.FunctionDef, _a.Assign)) and 'str' in [getattr(n, 'name', None)] + [t.id for t in getattr(n, 'targets', []) if isinstance(t, _a.Name)] for n in _a.walk(tree)):
            return False, '`str` is rebound in the module'
        for q in fns:
            f = _fn(mods, mod, q)
            if f is None:
                return None, f'{mod}.{q} not found'
            idx = [i for i, st in enumerate(f.body) if isinstance(st, _a.Assign) and isinstance(st.value, _a.Dict) and len(st.targets) == 1 and isinstance(st.targets[0], _a.Name)]
            if len(idx) != 1:
                return False, f'{q}: expected exactly one top-level `<name> = {{...}}`'
            st = f.body[idx[0]]
            g = st.targets[0].id
            keys = [k.value if isinstance(k, _a.Constant) else None for k in st.value.keys]
            if keys != ['rewards', 'players', 'transition_list', 'final_states']:
                return False, f'{q}: the dictionary does not have exactly the keys rewards, players, transition_list, final_states'
            if sum(1 for n in _a.walk(f) if isinstance(n, _a.Name) and n.id == g and isinstance(n.ctx, _a.Store)) != 1:
                return False, f'{q}: `{g}` is bound more than once'
            tail = f.body[idx[0] + 1:]
            n_text = 0
            textvars = set()
            logs = _loggers(tree) | {'logging'}
            for t in tail:
                # a log call that mentions neither the dictionary nor the file writes nothing into the file
                if isinstance(t, _a.Expr) and isinstance(t.value, _a.Call) and isinstance(t.value.func, _a.Attribute) and isinstance(t.value.func.value, _a.Name) \
                        and t.value.func.value.id in logs and t.value.func.attr in ('debug', 'info', 'warning', 'error', 'critical', 'log') \
                        and not any(isinstance(n, _a.Name) and n.id in (g, file_param) for n in _a.walk(t)):
                    continue
                if isinstance(t, _a.Pass) or (isinstance(t, _a.Return) and (t.value is None or (isinstance(t.value, _a.Constant) and t.value.value is None))):
                    continue
                # the text may be built in steps through local names: x = str(game) / x = x.replace(const, const)
                if isinstance(t, _a.Assign) and len(t.targets) == 1 and isinstance(t.targets[0], _a.Name) and t.targets[0].id not in (g, file_param) \
                        and text_of_game(t.value, g, textvars):
                    textvars.add(t.targets[0].id)
                    continue
                ok = isinstance(t, _a.Expr) and isinstance(t.value, _a.Call) and isinstance(t.value.func, _a.Attribute) and t.value.func.attr == 'write' \
                    and isinstance(t.value.func.value, _a.Name) and t.value.func.value.id == file_param and len(t.value.args) == 1 and not t.value.keywords
                if not ok:
                    return False, f'{q}: statement at line {t.lineno} after the dictionary is not `{file_param}.write(...)`'
                a = t.value.args[0]
                if strconst(a):
                    continue
                if text_of_game(a, g, textvars):
                    n_text += 1
                    continue
                return False, f'{q}: line {t.lineno} writes something other than a string constant or str({g}).replace(<const>, <const>)...'
            if n_text != 1:
                return False, f'{q}: str({g}) is written {n_text} times'
        return True, f'{", ".join(fns)}: after `game = {{...}}` only constant text and one `str(game).replace(const, const)...` are written'
    return check

"""Which functions, lemmas, static obligations and executable-contract suites decide which property."""
from pyvc.registry import load_contracts
from . import statics as ST

A_REAL = "A-REAL: Python floats are encoded as mathematical reals (no rounding, no NaN/inf); float effects are invisible to these obligations"
A_ROUND = "A-ROUND: round(x, 6) is an uninterpreted function with the axioms: monotone, |round6(x)-x| <= 5e-7, round6(0)=0, round6(1)=1"
A_LIST = "Python lists/tuples/dicts are encoded as (array, length) values or heap references as described in pyvc/engine.py; list lengths are non-negative"
A_TRANS = "a transition tuple (x, t) is encoded as Trans(lab, prob, tgt): x is read as `lab` on player states and as `prob` on probabilistic states"
A_LOG = "calls to logging.* are dropped after a scan that their arguments contain no calls (no side effects)"
A_SORT = "list.sort() is assumed to produce an ascending permutation (same length, same members, same multiplicities)"
A_VALID = "contracts of Solver/Node methods assume valid_states (index = position, class tag matches the player string, successors in range); it is established by init_states' contract"
COMMON = [A_REAL, A_LIST, A_TRANS, A_LOG]

_C, _F, _T = load_contracts()


def fns(*props, extra=()):
    out = [q for q, c in _C.items() if set(props) & set(c.get('props', []))]
    return out + [q for q in extra if q not in out]


PROPS = {}

PROPS['C04'] = dict(
    functions=fns('C04'),
    lemmas=['L_ArgEqR_empty_above', 'L_ArgEqR_empty_below'],
    static=[('prune-flag-does-not-reach-reachability-strategies', ST.prune_flag_independence('reachability_strategies'))],
    assumptions=COMMON + [A_ROUND, A_VALID],
    trusted_base=['spec functions MaxR/MinR/ArgEqR of contracts/tad_spec.py (written from the property statement)'],
    undecided_clauses=["the statement speaks of TRUE successor values; the obligations are about the REPORTED values (the bridge is C01's accuracy clause, not decidable by contracts)",
                       "values equal as rationals but reached through different floating-point sums are invisible under A-REAL (covered only by the bounded executable contracts)"],
)

"""Which functions, lemmas, static obligations and executable-contract suites decide which property."""
from pyvc.registry import load_contracts
from . import statics as ST

A_REAL = "A-REAL: Python floats are encoded as mathematical reals (no rounding, no NaN/inf); float effects are invisible to these obligations"
A_ROUND = "A-ROUND: round(x, 6) is an uninterpreted function with the axioms: monotone, |round6(x)-x| <= 5e-7, round6(0)=0, round6(1)=1"
A_LIST = "Python lists/tuples/dicts are encoded as (array, length) values or heap references as described in pyvc/engine.py; list lengths are non-negative"
A_TRANS = "a transition tuple (x, t) is encoded as Trans(lab, prob, tgt): x is read as `lab` on player states and as `prob` on probabilistic states"
A_LOG = "calls to logging.* are dropped after a scan that their arguments contain no calls (no side effects)"
A_SORT = "list.sort() is assumed to produce an ascending permutation (same length, same members, same multiplicities)"
A_VALID = "contracts of Solver/Node methods assume valid_states (index = position, class tag matches the player string, successors in range); it is established by init_states' contract"
COMMON = [A_REAL, A_LIST, A_TRANS, A_LOG]

_C, _F, _T = load_contracts()


def fns(*props, extra=()):
    out = [q for q, c in _C.items() if set(props) & set(c.get('props', [])) and not c.get('external') and not c.get('external_for_main')]
    return out + [q for q in extra if q not in out]


PROPS = {}
NOT_APPLICABLE = {}
SWEEP_LEMMAS = ['L_MaxS_mono', 'L_MinS_mono', 'L_SumS_mono', 'L_MaxS_lip', 'L_MinS_lip', 'L_SumS_lip', 'L_MaxS_unit', 'L_MinS_unit', 'L_SumS_unit', 'L_BR_mono', 'L_BR_lip', 'L_BR_unit']
A_VSTAR = "the true value V* is represented by a ghost vector VR of which the obligations use only: VR is a fixed point of the Bellman operator BR on the swept states, RP <= VR initially, VR <= 1 (the defining properties of the least fixed point; its existence is textbook, not proved here)"

PROPS['C01'] = dict(
    functions=fns('C01'),
    lemmas=SWEEP_LEMMAS,
    static=[('prune-flag-does-not-reach-probabilities', ST.prune_flag_independence('probabilities'))],
    assumptions=COMMON + [A_VALID, A_VSTAR],
    trusted_base=['spec functions MaxS/MinS/SumS/BR of contracts/tad_spec.py (the reachability Bellman operator as the statement words it)'],
    undecided_clauses=["'lies within the solver's convergence tolerance of the true value': no inductive invariant of a loop that tests the last change bounds the distance to the fixed point; false on the real code (known finding F-ACC)"],
    termination_unproved=['Solver.value_iteration_reachability: while diff > threshold (real-valued progress argument not mechanised; see C06)'],
    level_text="Every obligation generated from the real AST of the reachability node steps and of the sweep is discharged for symbolic games of any size: each node step equals the Bellman operator of its owner; the sweep only writes swept states (finals stay 1, no-path states stay 0), keeps 0 <= rp <= V* at every iteration (never exceeds the true value), ends with Bellman residual <= threshold, raises exactly when pruning is on and rp[0] = 0; monotonicity and 1-Lipschitz lemmas of the operators are proved by induction. Independence of the pruning flag is a static non-interference obligation on the real AST.",
    level_note="Trusted: z3/cvc5; the pyvc encoder's reading of Python (floats as reals, lists as arrays, heap fields); V* characterised only as a fixed point bounding rp; valid_states assumed at the sweep's entry (established by init_states, contract pending); the accuracy clause is not decided (known finding F-ACC); termination of the sweep not proved. The executable contracts run on ~2000 small games are a bounded stand-in and are not counted as proved.",
)
PROPS['C04'] = dict(
    functions=fns('C04'),
    lemmas=['L_ArgEqR_empty_above', 'L_ArgEqR_empty_below'] + SWEEP_LEMMAS,
    level_text="Obligations from the real AST: each strategy routine returns, in transition order, exactly the labels whose successor's rounded reported value equals the rounded maximum (Player 1) / minimum (Player 2) -- whole-list equality with the spec function ArgEqR for lists of any length; the per-state table has an entry for every player state and None for probabilistic states; the reported values it reads satisfy the sweep contract of C01 (residual <= threshold, <= true value); pruning-flag independence is a static obligation.",
    level_note="Trusted: z3/cvc5, the encoder, A-REAL, A-ROUND (round(x,6) axiomatised). The link from reported to TRUE values is C01's undecided accuracy clause; float-sum ties are only covered by the bounded executable contracts.",
    static=[('prune-flag-does-not-reach-reachability-strategies', ST.prune_flag_independence('reachability_strategies'))],
    assumptions=COMMON + [A_ROUND, A_VALID],
    trusted_base=['spec functions MaxR/MinR/ArgEqR of contracts/tad_spec.py (written from the property statement)'],
    undecided_clauses=["the statement speaks of TRUE successor values; the obligations are about the REPORTED values (the bridge is C01's accuracy clause, not decidable by contracts)",
                       "values equal as rationals but reached through different floating-point sums are invisible under A-REAL (covered only by the bounded executable contracts)"],
)

COND_LEMMAS = ['L_FA_len', 'L_FA_alive', 'L_FA_full', 'L_FA_keeps', 'L_FA_from', 'L_AliveMass_pos', 'L_SumP_ext', 'L_FA_sum', 'L_Renorm_len', 'L_Renorm_at', 'L_Renorm_sum', 'L_FL_from', 'L_FL_keeps']
A_F0 = "prune_states is verified for ANY predicate F0 satisfying the inversion rule of 'reachable from state 0 in the entry graph'; that forward reachability satisfies it is M_LFP_inv (lean/Meta.lean)"
TAD_CONE = sorted({('tad', q.split('.', 1)[1].split('@')[0]) for q in _C if q.startswith('tad.') and not _C[q].get('virtual') and not _C[q].get('external')})
PROPS['C03'] = dict(
    functions=fns('C03'),
    lemmas=COND_LEMMAS,
    assumptions=COMMON + [A_VALID, A_F0, "probabilities of probabilistic states are > 0 (Proper(G)); the solver does not validate this"],
    trusted_base=['spec functions FilterAlive/AliveMass/Renorm/FilterLab of contracts/tad_spec.py (written from the statement: keep, in order, exactly the transitions whose target has non-zero probability; divide by the surviving mass)'],
    undecided_clauses=[],
    termination_unproved=[],
    termination_proved=['Solver.prune_states: while not finished -- variant n - len(not_reachable_states), strictly decreasing whenever the loop continues (the unreachable list is ascending, within [0,n), and contains the previous one: L_pigeon, L_subset_card)'],
    level_text="Obligations from the real AST, for transition lists of any length with dead successors in any positions: both prune_paths methods leave exactly FilterAlive(old list) (whole-list equality: order kept, nothing alive lost, nothing dead kept), the probabilistic one divided by the surviving mass (sums to 1, proved via the Renorm/SumP lemmas) and untouched when nothing was dead; prune_paths_reachability leaves exactly the transitions whose label is reachability-optimal; Solver.prune_paths/prune_reachability apply this to every Player 1 / probabilistic state and leave Player 2 states and every pre-existing list object untouched (frame); prune_states only ever replaces lists of non-Player-1 states that are NOT reachable from state 0 by the empty list (proved for any predicate satisfying the inversion rule of forward reachability).",
    level_note="Trusted: z3/cvc5, the encoder (heap model of list objects and object fields), A-REAL. The composition inside StochasticGame.solve (that these methods are called in this order on the solver's node list) is covered by the bounded executable contracts, not yet by a contract on solve. Termination of prune_states is proved (variant + cardinality lemmas).",
)
PROPS['C10'] = dict(
    functions=[q for q in _C if q.startswith('tad.') and not _C[q].get('external')],
    lemmas=COND_LEMMAS,
    static=[('determinism-of-the-solver-cone', ST.determinism(TAD_CONE + [('reverse_dfs', f) for f in ('reverse_dfs', 'reverse_dfs_recursive', 'reverse_transition_list', 'reverse_transition_list_core', 'list_of_tuples_to_dict_of_lists', 'add_missing_states')]))],
    assumptions=COMMON + [A_VALID, "init_states makes each node's next_states alias the caller's transition_list[i] (heap model: the field holds the caller's list reference)"],
    trusted_base=['frame semantics of the encoder: every list object allocated before a call keeps its content unless the callee contract names it in `modifies`'],
    undecided_clauses=["'solving the same description again returns identical results' is derived from the frame (description unchanged) plus the static determinism scan (the cone reads nothing but its arguments); the scan is a static argument, not an SMT obligation"],
    level_text="Frame obligations from the real AST: every method that conditions the game (both prune_paths, prune_paths_reachability, Solver.prune_paths, prune_reachability, prune_states) is proved to modify only the `next_states` FIELD of solver nodes and NO list object that existed before the call (for all r < alloc at entry: content(r) unchanged) -- so the caller's transition lists, which the nodes alias, keep their content; the value-iteration and strategy methods are proved to modify no list and only the numeric node fields. Determinism of the cone is a static scan of the real AST.",
    level_note="Trusted: z3/cvc5, the encoder's heap model. A contract on StochasticGame.solve composing the per-method frames is pending; the composition and the repeated-solve sequences are covered by the bounded executable contracts (description compared before/after, all orders of pruned/unpruned solves).",
)

RDFS_LEMMAS = ['L_CountI_ext', 'L_CountP_ext', 'L_CountI_mem', 'L_CountT_mem', 'L_CountP_mem', 'L_FNI_len', 'L_FNI_count', 'L_distinct_le1', 'L_CountI_step', 'L_le1_distinct']
CARD_LEMMAS = ['L_SumC_zero', 'L_SumC_step', 'L_SumC_len', 'L_SumC_le', 'L_pigeon', 'L_SumC_mono', 'L_SumC_eq', 'L_subset_countle', 'L_count_subset', 'L_subset_card']
RDFS_LEMMAS = RDFS_LEMMAS + CARD_LEMMAS
A_VALUE = "value model: every list/dict in reverse_dfs.py is built locally and has a single access path when it is mutated, so nested references are encoded as nested values"
A_CR = "reverse_dfs is verified for ANY predicate CR closed under the introduction rules of 'can reach a final state' (result inside CR) and its result together with the finals is proved closed under predecessors; that these two facts characterise the least fixed point is M_LFP (lean/Meta.lean)"
PROPS['C07'] = dict(
    functions=[q for q in _C if q.startswith('reverse_dfs.')],
    lemmas=RDFS_LEMMAS,
    assumptions=[A_LIST, A_TRANS, A_VALUE, A_SORT, A_CR],
    trusted_base=['spec functions CountI/CountP/CountT/FilterNotIn of contracts/rdfs_spec.py', 'Lean 4 meta-lemma M_LFP (least fixed point = smallest closed set containing the finals)'],
    undecided_clauses=[],
    termination_unproved=[],
    termination_proved=['reverse_dfs_recursive: while pending_states -- lexicographic variant (n - len(visited), len(pending)); len(visited) <= n by the pigeonhole lemma L_pigeon (visited is duplicate-free within the key range of the reversed table)', 'no recursion: the function no longer calls itself (static obligation)'],
    static=[('no-recursion-in-backward-search', ST.no_self_call('reverse_dfs', 'reverse_dfs_recursive'))],
    level_text="All six functions of reverse_dfs.py are verified from their real AST for graphs of any size: the reversed table has an entry for every state and lists u under v exactly once per transition u->v (stated with counting functions: CountI(rev[v], u) = CountT(tl[u], v) for all u, v); the work-list search returns a duplicate-free list that extends its accumulator, contains the start state, is closed under predecessors and sound w.r.t. any reachability predicate; reverse_dfs returns a strictly ascending list (each state once) of non-final states inside every predicate closed under the reachability rules, and result+finals is closed under predecessors -- with the Lean meta-lemma M_LFP this is exactly the set of non-final states that can reach a final state.",
    level_note="Trusted: z3/cvc5, the encoder (value model for locally built lists/dicts), the assumed contract of list.sort (ascending permutation), Lean's kernel for M_LFP. Termination of the work-list loop is proved (lexicographic variant; pigeonhole lemma; no recursion remains). Inputs are assumed in range (targets and finals in 0..n-1), which check_game/check_next_states establish.",
)

from .strings_c17 import LEMMAS as C17_STR
A_EXT = "assumed contracts of external functions: random.random() in [0,1) including 0.0; random.choices returns k members of the population; random.randrange(a,b) in [a,b); math.log negative on (0,1), non-negative from 1, log 2 > 0; math.floor = floor; 2.0**k >= 1 for k >= 0 and >= 2 for k >= 1 (no overflow: A-REAL); argparse returns ints / IEEE doubles (NaN and infinities included) of the declared types"
GEN_CONE = [('roberta_generator', f) for f in ('gen_rnd_board', 'get_random_moves')]
PROPS['C15'] = dict(
    functions=fns('C15'),
    static=[('board-draws-depend-only-on-seed-and-parameters', ST.seeded_randomness('roberta_generator', 'gen_rnd_board', ['get_random_moves']))],
    assumptions=[A_LIST, A_EXT, "check_input, prob_to_str and main are encoded in IEEE-754 binary64 (round-to-nearest-even); gen_rnd_board/get_random_moves in reals (A-REAL)", A_VALUE],
    trusted_base=['z3 floating-point theory (FP sorts) for the parameter checks'],
    undecided_clauses=["'loose-tile flags occur with the requested frequency' is a statistical statement; only its per-draw definition (flag = 1 iff the draw is below the probability) is covered, by the executable contracts",
                       "'identical every time the same seed is used' rests on the assumed contract of the random module plus the static scan that random.seed(seed) is the first effect and nothing else is read"],
    level_text="check_input is loop-free and verified in Float64 over its full symbolic domain (a complete proof): a normal return implies seed >= 0, sizes >= 1, max reward >= 1 and 0 < p < 1 (hence not NaN) for all four probabilities, and ValueError is raised only outside that set; main reaches write_robots only after check_input returned, with exactly those facts (refused before anything is written); gen_rnd_board/get_random_moves: requested length and width for all three grids, rewards integers in 0..max_reward, flags in {0,1}, arrows in {0,1,2} without force-down (no down-only tile) and in {0..3} with at least one 3 per row with it -- for boards of any size.",
    level_note="Trusted: z3/cvc5 incl. the FP theory, the encoder, the assumed contracts of random/math/argparse, A-REAL for the reward formula (2.0**k overflow for max_reward >= 1023 is outside it). Frequency is not a contract; reproducibility is a static argument over the assumed contract of random.",
)
PROPS['C17'] = dict(
    functions=fns('C17'),
    smt_lemmas=C17_STR,
    assumptions=["prob_to_str and main are encoded in IEEE-754 binary64", "A-STRINT: str(int) of a non-negative int is a non-empty digit string and injective (z3 int.to.str); checked against CPython by the executable contracts",
                 A_EXT],
    trusted_base=['z3 FP theory; cvc5 string theory (--strings-exp) for the peel lemmas'],
    undecided_clauses=["that the eight digit strings of a name are str(seed), str(width), ... for the INTEGERS passed needs 'str(int >= 0) is a non-empty digit string' (first half of A-STRINT: undecided by z3 and cvc5 over str.from_int, assumed; the injectivity half IS discharged by z3 as `strint-injective`)"],
    level_text="prob_to_str is verified in Float64 for every k = 1..99 (99 ground instances of the real function: exhaustive over the finite domain) to return str(k) for the double nearest k/100; main is symbolically executed and the file name passed to write_robots is proved equal to the tagged concatenation inputs/robot_<seed>_w<width>_l<length>_r<max>_rb<P>_lb<P>_tb<P>_lt<P>[_force_down].py with the right parameter in every field; field-by-field injectivity of that shape is proved as eight string lemmas by cvc5, and the nine-field statement itself (equal names => equal seed, width, length, maximum reward, four percentages and flag strings) is discharged as one ground query from instances of those eight lemmas generated from the same templates (`compose:nine-fields`); str(int) is injective on non-negative ints (z3).",
    level_note="Trusted: z3 (FP), cvc5 (strings), the encoder, argparse's assumed contract. Exhaustive for the 99 whole percentages; other probabilities are named by rounding (not claimed injective).",
)

A_BUILD = "builders are encoded in the value model (lists built locally); probabilities are reals (A-REAL); a (label, target) tuple is Trans(lab, prob, tgt)"
PROPS['C08'] = dict(
    functions=fns('C08'),
    assumptions=[A_LIST, A_TRANS, A_BUILD],
    trusted_base=['the per-tile cell functions Cell_<builder> of contracts/roberta_generator.py: what the Roborta rules of the statement prescribe for tile (a, b) of each state group'],
    undecided_clauses=["the step from 'every state number carries the cell the rules prescribe' (proved, below) to 'bisimilar from the initial state to the abstract Roborta game' is the observation that the reference game is DEFINED over the same numbering group*n_tiles + a*width + b; the bisimulation itself (partition refinement against an independently written abstract game) is the bounded executable contract: all boards up to 2 tiles (3 in the thorough tier) x all arrow/loose layouts, plus sampled larger boards",
                       "that the written FILE denotes the same dict (str(game).replace(...) then eval) is outside any solver theory: bounded (C11)"],
    level_text="All nine transition builders are verified from their real AST for boards of ANY length and width >= 1 and any arrow / loose-tile layout: each returns exactly length*width transition lists and the list at position a*width+b equals, element by element (labels, probabilities, targets, order), the cell the Roborta rules prescribe for tile (a, b): wrap-around within the row by cases, win from the last row, tile-break / robot-break / light-break probabilities p and 1-p on the right branches, Yellow withheld on down-only tiles, free choice restricted to the tile's arrows. write_robot_A/B/C are verified up to the statement `game = {...}`: for every group g and tile (a,b), transition_list[g*n_tiles + a*width + b] is the cell of the builder the rules assign to group g with the offsets of the right target groups (e.g. game C: light -> light-failure states 8/9, those -> free choice 3 or obedient robot 1/2, robots -> try-states 5/6/7, those -> landing 4, landing -> light 0 or the losing state); the last two states are the absorbing loser and winner; owners are Player 2 / Player 1 / Probabilistic per group; rewards sit on the light states (my_rewards[a*width+b] = rewards[a][b], proved through the flattening lemma) and are 0 elsewhere; the only final state is the winner.",
    level_note="Trusted: z3/cvc5, the encoder (nonlinear index arithmetic a*width+b: one proved range lemma L_Idx_bound), the cell functions and the group table as the reading of the rules. The file text (str/replace/eval) is a bounded stand-in, not proved.",
)
PROPS['C11'] = dict(
    functions=fns('C11'),
    static=[('board-draws-depend-only-on-seed-and-parameters', ST.seeded_randomness('roberta_generator', 'gen_rnd_board', ['get_random_moves']))],
    assumptions=[A_LIST, A_TRANS, A_BUILD, A_EXT],
    trusted_base=['Cell_<builder> functions; z3 FP theory for check_input'],
    undecided_clauses=["the file text round trip (str/replace/eval), the three keys, validation by the real check_game/check_next_states/init_states, 'every state has a transition', 'probabilities positive summing to 1', 'single absorbing final / absorbing loser' are evaluated on the games actually written and read back for enumerated and sampled boards: bounded, not proved",
                       "'each game is then either solved or reported as having no solution': depends on termination of the reward sweep, which is not proved and FAILS for generated games that are not stopping (known finding F-DIVERGE)"],
    level_text="Deductive part: every accepted parameter set satisfies the documented ranges (check_input, Float64, complete), the random board has the requested shape and value ranges (gen_rnd_board/get_random_moves, any size), and every builder returns, for every tile, the non-empty transition list the rules prescribe with probabilities p and 1-p (p from check_input's range) or 1 -- so every state of every group has at least one transition and every probabilistic state's probabilities are positive and sum to 1 whenever 0 < p < 1. The remaining clauses are bounded executable contracts on the file actually written and read back.",
    level_note="Trusted: z3/cvc5, the encoder, assumed contracts of random/math/argparse. Assembly inside write_robot_X, the text round trip and the 'then solved or refused' clause are bounded stand-ins; the last one has a known finding.",
)

A_PYVAL = "in the validation functions the description is dynamically typed: the four top-level values are lists (rewards of numbers, final_states of ints, players of strings -- the shape the property fixes), NOTHING is assumed about the elements of transition_list: each is a PyVal (int | float | str | bool | None | tuple(len, slot0, slot1) | list reference | other); isinstance(v, int) includes bool"
A_BRIDGE = "A-BRIDGE: that a description accepted by the validating prefix (PyVal world) is represented by a valid_states node list in the typed world of the solver contracts is not mechanised (the two encodings are linked by hand: same fields, same aliasing)"
PROPS['C09'] = dict(
    functions=fns('C09'),
    assumptions=[A_PYVAL, A_BRIDGE, A_LIST, "min([]) / max([]) raise ValueError (CPython); comparing a non-number with < raises TypeError (a safety obligation)"],
    trusted_base=['the well-formedness predicate WF(G) of contracts/tad.py, written from the rule list of the statement'],
    undecided_clauses=["'the batch runner turns that error into a recorded message instead of a crash' is a discharged postcondition of run_games (failure entries carry 'Error while solving the game: <message>'; only ValueError is caught) but against SUMMARY contracts of the StochasticGame methods (A-SUMMARY), not the concrete ones; copy.deepcopy, time.time and f-string formatting are assumed contracts"],
    level_text="From the real AST, for descriptions of any size and any Python values inside transition_list: check_next_states returns normally only if the value is a list whose EVERY element is a 2-tuple with a str action (player states) / a number (probabilistic states) and an int successor in 0..n-1, raises only ValueError, and no subscript, len or comparison can raise TypeError/IndexError (each is typed by an earlier test); check_game returns only if lengths agree, rewards are >= 0, finals are non-empty and in range, players are known (min/max of an empty list is the ValueError CPython raises); the three node constructors and Node.__init__ set every field and validate; init_states returns only if every state has a truthy, well-formed transition list, and its nodes alias the caller's lists; the prefix of solve up to the creation of the solver is reached only for a description satisfying the whole rule list and otherwise raises ValueError.",
    level_note="Trusted: z3/cvc5, the encoder's PyVal model of dynamic typing, the rule list as written in WF(G). The typed-world solver contracts assume what this prefix establishes (A-BRIDGE). run_games is verified against summary contracts (A-SUMMARY).",
)

REW_LEMMAS = ['L_LastMax_range', 'L_LastMin_range', 'L_MinSel_is_min', 'L_FilterIn_first', 'L_ArgEqR_from', 'L_MinW0_lip', 'L_MinW0_nonneg', 'L_MaxS_nonneg', 'L_SumS_nonneg', 'L_BW_lip', 'L_BW_nonneg']
ZERO_LEMMAS = ['L_MaxS_zero', 'L_MinS_zero', 'L_SumS_zero', 'L_BR_zero']
PROPS['C01']['lemmas'] = SWEEP_LEMMAS + ZERO_LEMMAS + RDFS_LEMMAS
PROPS['C01']['assumptions'] = PROPS['C01']['assumptions'] + [A_BRIDGE, A_CR, A_SORT, A_VALUE]
PROPS['C01']['level_text'] += " The composed reachability phase (Solver.solve_reachability: backward search, sweep, strategy table) is verified against the statement itself: finals report exactly 1; every non-final state outside ANY predicate closed under the can-reach rules reports exactly 0; 0 <= rp <= V; every non-final state (inside or outside the search result) has Bellman residual <= threshold."
PROPS['C04']['lemmas'] = PROPS['C04']['lemmas'] + ZERO_LEMMAS + RDFS_LEMMAS
PROPS['C02'] = dict(
    functions=fns('C02'),
    lemmas=SWEEP_LEMMAS + COND_LEMMAS + REW_LEMMAS,
    assumptions=COMMON + [A_ROUND, A_VALID, A_VSTAR, A_F0, A_BRIDGE, "rewards >= 0 and, for probabilistic states with a non-empty list, probabilities >= 0 summing to 1 (Proper(G); after conditioning this is prune_paths' postcondition)"],
    trusted_base=['spec function BW of contracts/tad_spec.py: 0 without transitions, else reward + max / min / probability-weighted sum (the reward Bellman operator of the statement)', 'Filter/Renorm spec functions for the conditioned game'],
    undecided_clauses=["'equals, within convergence tolerance, the max-min expected total reward': needs a convergence-rate argument (same stopping rule as F-ACC) and the theory of stopping games; what is proved is the Bellman-consistency form the quantifier text gives: the reported vector is a fixed point of the CURRENT (conditioned) node lists' reward equations up to the threshold, at every state",
                       "that the node lists at that point are exactly Cond(G, rp, sigma, prune) on every state reachable from the initial state is proved per method (prune_paths, prune_paths_reachability, prune_reachability, prune_states); the composition inside solve/prune_stochastich_game is covered by the bounded executable contracts"],
    termination_unproved=['Solver.value_iteration_total_rewards: no variant (two diagnostic vectors follow an arg-max that may switch); diverges on non-stopping games'],
    level_text="From the real AST, for games of any size: each node step returns BW (0 for an empty list, else reward + max / min / sum p*er over the node's CURRENT list); the reward sweep keeps er >= 0, writes only the three reward fields of solver nodes and ends with |er[s] - BW(s, er)| <= threshold for EVERY state (1-Lipschitz lemma of BW proved by induction); the conditioning methods produce exactly the Filter/Renorm lists of the statement (C03).",
    level_note="Trusted: z3/cvc5, the encoder, A-REAL. Equality with the true conditioned value is not decided (known finding F-ACC covers the stopping rule); termination of the reward sweep is not proved; the solve-level composition is bounded.",
)
PROPS['C05'] = dict(
    functions=fns('C05'),
    lemmas=['L_ArgEqR_empty_above', 'L_ArgEqR_empty_below', 'L_ArgEqR_empty_below0', 'L_ArgEqR_from', 'L_FL_from', 'L_FL_keeps'] + COND_LEMMAS,
    assumptions=COMMON + [A_ROUND, A_VALID],
    trusted_base=['ArgEqR/MaxR/MinR0/FilterLab spec functions'],
    undecided_clauses=["optimality w.r.t. the TRUE conditioned rewards in cyclic games (C02's accuracy clause)",
                       "the inclusion final[s] within reach[s] is the composition: labels(ArgEqR(list)) are labels of the list (lemma L_ArgEqR_from, proved) and the list after prune_reachability is FilterLab(old, reach[s]) whose labels lie in reach[s] (lemma L_FL_from, proved) and later steps only remove (C03 frames); the composition across solve is covered by the bounded executable contracts"],
    level_text="From the real AST: get_best/get_worst_strategies_total_rewards return, in transition order, exactly the labels of the CURRENT list whose successor's rounded expected reward is maximal (Player 1, floored at 0) / minimal (Player 2, [] on an empty list); the table has None for probabilistic states; prune_reachability leaves at each Player 1 state exactly the transitions whose label is in the reported reachability strategy. The two inclusion lemmas (labels of an arg-list are labels of the list; labels of FilterLab(list, best) are in best) are proved by induction.",
    level_note="Trusted: z3/cvc5, the encoder, A-REAL, A-ROUND. Composition across solve is bounded.",
)
ALL_SOLVER = [q for q in _C if (q.startswith('tad.') or q.startswith('reverse_dfs.')) and not _C[q].get('external')]
PROPS['C06'] = dict(
    functions=ALL_SOLVER,
    lemmas=SWEEP_LEMMAS + ZERO_LEMMAS + COND_LEMMAS + REW_LEMMAS + RDFS_LEMMAS + ['L_ArgEqR_empty_above', 'L_ArgEqR_empty_below', 'L_ArgEqR_empty_below0'],
    static=[('no-recursion-in-backward-search', ST.no_self_call('reverse_dfs', 'reverse_dfs_recursive'))],
    assumptions=COMMON + [A_ROUND, A_VALID, A_PYVAL, A_BRIDGE, A_VSTAR, A_F0, A_CR, A_SORT, A_VALUE],
    trusted_base=['every operation that can raise (subscript, division, dict key, min/max of empty, unbound local, len/compare of a non-number, round digits) generates a safety obligation unless the contract admits that exception'],
    undecided_clauses=["'rp[0] = 0 implies the true value is 0' (the converse of the proved 'V*[0] = 0 implies refused'): an accuracy statement; false on the real code for slowly propagating values (known finding F-ZERO)",
                       "composition of the phases inside StochasticGame.solve after the validating prefix, and prune_stochastich_game / solve_total_rewards / Solver.__init__ / count_transitions, are not yet under contract: covered by the bounded executable contracts"],
    termination_proved=['reverse_dfs_recursive (work-list loop): lexicographic variant + pigeonhole', 'Solver.prune_states: variant n - len(unreachable list)', 'every for loop iterates over a list its body cannot change (count fixed at entry; engine check)'],
    termination_unproved=['Solver.value_iteration_reachability (real-valued progress argument not mechanised)', 'Solver.value_iteration_total_rewards (diverges on non-stopping games)'],
    level_text="Exception freedom and the admitted exception, from the real AST of 45 functions of tad.py and reverse_dfs.py: every subscript is in range, every division is by a non-zero value, every local is bound before use, every dict key is present, every min/max is of a non-empty list (or raises the admitted ValueError), no method modifies anything outside its frame; the validating prefix raises ValueError exactly for malformed descriptions; the reachability phase raises exactly when pruning is on and the reported rp[0] is 0 (and since 0 <= rp <= V*, a game whose true initial value is 0 is always refused).",
    level_note="Trusted: z3/cvc5, the encoder. Termination is proved for the work-list search and for prune_states (variants, cardinality lemmas), not for the two value-iteration sweeps (listed); the bounded executable contracts run the real solve under a time limit on ~1500 stopping games. The converse of the refusal rule is a known finding (F-ZERO).",
)
PROPS['C14'] = dict(
    functions=fns('C14'),
    lemmas=SWEEP_LEMMAS + REW_LEMMAS + ['L_ArgEqR_empty_below'],
    assumptions=COMMON + [A_ROUND, A_VALID, A_VSTAR],
    trusted_base=['LastMax / LastMin / MinSel / FilterIn spec functions: which successor each diagnostic follows'],
    undecided_clauses=["that the two outputs EQUAL the reach probability / expected reward of the chain induced by the reported strategies needs convergence of the sweep and agreement between the successor followed at the last sweep and the reported single action; only which successor is followed and with which formula is proved",
                       "the diagnostics are not covered by the residual bound (their operators follow an arg-max and are not Lipschitz in er)"],
    level_text="From the real AST: Player 1's step returns for both diagnostics the value at the LAST successor attaining the maximal expected reward (+ reward for the reward diagnostic); Player 2's step returns the reach diagnostic at the last successor attaining the minimal expected reward and, for 'rewards under minimal reachability', reward + the minimum of that vector over exactly the actions of its reachability strategy (ArgEqR of the rounded minimum, hard-coded 6 digits = the solver's floor), 0 if that list is empty; probabilistic steps return the p-weighted sums; all three are 0 for an empty list; the reachability sweep seeds the reach diagnostic with rp for every state.",
    level_note="Trusted: z3/cvc5, the encoder, A-REAL, A-ROUND. Equality with the induced chain's values is bounded only (acyclic games in the executable contracts).",
)
PROPS['C13'] = dict(
    functions=sorted(set(fns('C13'))),
    lemmas=COND_LEMMAS + RDFS_LEMMAS + ['L_ArgEqR_empty_above', 'L_ArgEqR_empty_below', 'L_ArgEqR_from'] + SWEEP_LEMMAS,
    assumptions=COMMON + [A_ROUND, A_VALID, A_VALUE, A_SORT],
    trusted_base=['the postconditions of the pipeline are stated over spec functions of the transition list contents (Filter by predicate on the element, arg-lists by value equality, counts, closures), never over positions or identities'],
    undecided_clauses=["C13 relates TWO runs on two presentations; a contract speaks about one run. What is proved is that every postcondition in the pipeline is a function of presentation-free data (which transitions exist, their labels, probabilities, targets and the values at the targets): the conditioning keeps an element iff a predicate of the element holds (position-independent), the strategy lists contain a label iff the successor's rounded value equals the extremum, the search result is a set characterised by closure. The lemmas that these spec functions commute with a permutation of states / transitions are NOT mechanised",
                       "'probabilities and rewards change only by the renumbering within tolerance' and 'solvability never changes' are accuracy statements about two different Gauss-Seidel orders; the second is false on the real code (known finding F-ZERO)"],
    level_text="The check re-discharges the obligations of the functions whose postconditions carry the presentation-freeness (backward search, node steps, strategy lists, all conditioning methods): a change that makes the outcome depend on adjacency, list position or action-name order breaks one of them (the property's own example, in-place removal while iterating, is exactly what C03's Filter postcondition rejects). The relational statement itself is exercised by the bounded executable contract: random state permutations fixing 0, per-state transition shuffles and injective renamings on acyclic games, comparing all outputs.",
    level_note="Proof level refers to the per-function obligations only; the two-run relation is bounded. Trusted: z3/cvc5, the encoder.",
)

for _p in ('C01', 'C02', 'C04', 'C05', 'C14', 'C06'):
    PROPS[_p].setdefault('static', [])
    PROPS[_p]['static'] = list(PROPS[_p]['static']) + [('solver-constants-threshold-1e-6-and-6-digits', ST.solver_constants)]

A_IO = "open/read/write/eval are external: a file opened for writing is a ghost string, the concatenation of everything written to it (plus its path and mode); read() returns an uninterpreted CONTENT(path); eval is an uninterpreted EVAL; x.split(c)[0] / [-1] are the z3 string terms 'before the first / after the last occurrence of c'"
A_FMT = "A-FMT: {value} in an f-string is an uninterpreted, type-indexed function fmt(value); that fmt followed by ast.literal_eval gives the value back (None, bools, ints, floats, strings, nested lists) is covered by the bounded executable contract only"
PROPS['C16'] = dict(
    functions=fns('C16'),
    assumptions=[A_LIST, A_IO, A_FMT, "an entry of the result dictionary is a record with the 12 fixed keys; every field except msg is an opaque value (only == and formatting are used)"],
    trusted_base=['spec function Blocks of contracts/conditionalrewards.py: the 16 strings of a block with the field each line prints (written from the statement)'],
    undecided_clauses=["'every line reads back to exactly the value the batch run produced' needs repr/format/eval semantics (A-FMT): bounded -- the real save_results_to_file is run on real batch results and every line is parsed back with ast.literal_eval",
                       "'the input file itself is read into the same games it textually denotes' is eval's semantics: the contract only fixes that the file named by the argument is read once and its evaluation returned iff it is a dict"],
    level_text="From the real AST, for result dictionaries with any number of entries and any values: save_results_to_file opens exactly 'outputs/' + <last path component up to its first dot> + '.txt' for writing and the text it writes (the concatenation of all write/writelines arguments) equals Blocks(results): one block per entry in dictionary order, each of the 14 lines printing the field the statement names (message, counts, iteration counts, both strategy lists, their equality flag, probabilities, probabilities under minimal reward, rewards, rewards under minimal reachability, total time); read_dict_from_file returns EVAL(CONTENT(file)) iff it is a dict and raises ValueError otherwise.",
    level_note="Trusted: z3 (sequence/string theory for the path), the encoder's ghost model of files, A-FMT. The textual round trip is bounded only.",
)

A_SUMMARY = "A-SUMMARY: in run_games, StochasticGame(**d), count_transitions() and solve() are replaced by summary contracts over an abstract heap: solve returns SOL(description, prune) or raises ValueError(ERR(description, prune)) exactly when SOLFAIL(description, prune) -- i.e. solving is a function of the description and the mode and changes neither; this is what C10 establishes (frame + determinism); copy.deepcopy returns a fresh structurally equal object; time.time() is havocked"
PROPS['C12'] = dict(
    functions=fns('C12'),
    static=[('determinism-of-the-solver-cone', ST.determinism(TAD_CONE + [('reverse_dfs', f) for f in ('reverse_dfs', 'reverse_dfs_recursive', 'reverse_transition_list', 'reverse_transition_list_core', 'list_of_tuples_to_dict_of_lists', 'add_missing_states')]))],
    assumptions=[A_LIST, A_SUMMARY, A_IO, A_PYVAL, "game names are pairwise distinct and no name equals another name + '_no_prune' (the collision case is the known finding F-NAME and is excluded by this precondition)"],
    trusted_base=['the summary contracts of StochasticGame.__init__/count_transitions/solve (linked to the real functions by C09/C10, not mechanically)'],
    undecided_clauses=["that the summary contracts hold of the real StochasticGame methods is the content of C10 (frame, determinism) and is linked by hand",
                       "entries of games whose names collide (x and x_no_prune) overwrite each other: known finding F-NAME"],
    level_text="From the real AST of run_games, for dictionaries with any number of games in any order: after the loop, for EVERY game the result holds an entry under its name and one under name_no_prune; if the pruned solve succeeds the pruned entry carries 'Game solved' and exactly the eight values, state and transition counts that solving that description alone gives (SOL of its own description only), and likewise the unpruned entry (or the error message if only the unpruned solve fails); if the pruned solve raises ValueError the entry carries 'Error while solving the game: ' + that message, the unpruned entry is 'Game not solved', both without results; the descriptions of all games are unchanged; nothing but ValueError is caught. Independence of order and of the other games is immediate from the shape of this postcondition. The validating prefix of solve, check_game, check_next_states, init_states (C09) and read_dict_from_file are in the cone.",
    level_note="Trusted: z3 (incl. strings for the _no_prune keys), the encoder, A-SUMMARY, A-DEEPCOPY. Name collisions are excluded by precondition (known finding F-NAME).",
)

for _p in ('C01', 'C03', 'C06', 'C07', 'C13'):
    PROPS[_p].setdefault('static', [])
    PROPS[_p]['static'] = list(PROPS[_p]['static']) + [('lean-meta-lemmas-M_LFP-From0_inv-M_PERM', ST.lean_meta)]

PROPS['C08']['lemmas'] = ['L_Idx_bound', 'L_FlatOff_uniform']
PROPS['C11']['lemmas'] = ['L_Idx_bound', 'L_FlatOff_uniform']
PROPS['C11']['level_text'] += " The three write_robot functions are verified up to `game = {...}` (C08): list lengths agree (total*n_tiles + 2 each), every player string is one of the three, the single final state is the absorbing winner total*n_tiles+1 and the loser total*n_tiles is absorbing, every state's transition list is the non-empty cell of its builder."

# ---- the composed suffix of StochasticGame.solve (typed) is under contract: update the claims
SOLVE_TXT = (" StochasticGame.solve itself is verified in two parts: the validating prefix (C09, dynamically typed) and, from the statement after"
             " `state_list = self.init_states()`, the typed suffix composing every phase (Solver(...), solve_reachability, the probabilities list,"
             " prune_reachability, prune_stochastich_game when pruning is on, solve_total_rewards, the result tuple) against the callees' contracts only.")
PROPS['C01']['level_text'] += SOLVE_TXT + " For the tuple solve returns: probabilities[t] is the node value, finals are exactly 1, states outside any can-reach predicate exactly 0, 0 <= value <= V, residual <= 1e-6 at every non-final state (w.r.t. the input transition lists)."
PROPS['C02']['level_text'] += SOLVE_TXT + " For the tuple solve returns: rewards[t] = er[t] >= 0 and |er[t] - BW(t, er)| <= 1e-6 at EVERY state, where BW is over the node lists at exit, and those lists are proved to be exactly the conditioned game: with pruning on, Player 1 keeps FilterAlive(FilterLab(input list, reported reachability strategy)), probabilistic states keep Renorm(FilterAlive(input list)) (or the untouched input list), Player 2 keeps its input list -- or the state was cleared by prune_states, which happens only to non-Player-1 states outside ANY predicate satisfying the inversion rule of forward reachability in the conditioned game; with pruning off only FilterLab is applied."
PROPS['C02']['undecided_clauses'] = [PROPS['C02']['undecided_clauses'][0]]
PROPS['C03']['level_text'] += SOLVE_TXT + " The conditioned-game statement above (C02) is the solve-level form of C03; no list object that existed before the call is modified."
PROPS['C03']['level_note'] = "Trusted: z3/cvc5, the encoder (heap model of list objects and object fields), A-REAL, A-BRIDGE (the typed precondition of the suffix is what the validating prefix establishes; linked by hand). Termination of prune_states is proved (variant + cardinality lemmas)."
PROPS['C05']['level_text'] += SOLVE_TXT + " For the tuple solve returns: final_strategies[a] is the arg-list over the node list at exit (= the conditioned game, see C02/C03), reachability_strategies[a] the arg-list over the input list."
PROPS['C05']['undecided_clauses'] = ["optimality w.r.t. the TRUE conditioned rewards in cyclic games (C02's accuracy clause)",
                                     "the inclusion final[s] within reach[s] follows from the proved solve-level facts (final = ArgEqR over FilterAlive(FilterLab(input, reach[s])) whose labels lie in reach[s] by the proved lemmas L_ArgEqR_from, L_FA_from, L_FL_from) but is not stated as a single discharged obligation"]
PROPS['C10']['level_text'] += SOLVE_TXT + " The frame of the whole suffix is discharged: solve modifies only the five mutable fields of its own nodes and the fields of the Solver object it allocates; every list object that existed at entry (in particular every caller-owned inner transition list, which the nodes alias) and every field of the StochasticGame object keep their content."
PROPS['C10']['level_note'] = "Trusted: z3/cvc5, the encoder's heap model, A-BRIDGE. 'Solving again returns identical results' = this frame + the static determinism scan; the repeated-solve sequences themselves are exercised by the bounded executable contracts."
PROPS['C06']['undecided_clauses'] = [PROPS['C06']['undecided_clauses'][0], "Solver.__init__ is verified from its real body (fields, frame, floor == 6); what is ASSUMED is one fact about the library: math.log(10**-6, 10) returns a float in [-6, -5) (CPython: -5.999999999999999), re-evaluated from the real source by the static obligation solver-constants on every run; Node.__eq__ is under contract for C10 only (no side effect) and is never called by the cone"]
PROPS['C06']['level_text'] += SOLVE_TXT + " The only exception the suffix lets escape is the ValueError of the reachability phase, exactly when pruning is on and the reported rp[0] is 0."

PROPS['C05']['undecided_clauses'] = ["optimality w.r.t. the TRUE conditioned rewards in cyclic games (C02's accuracy clause)"]
PROPS['C05']['level_text'] += " The inclusion 'final strategy within reachability strategy at every Player 1 state' is a discharged postcondition of the solve suffix (through the proved lemmas L_ArgEqR_from, L_FA_from, L_FL_from), for every game without exception."

# ---- C01/C04 hold for EVERY solve of a description, also one that follows an earlier (pruned) solve of the same lists: that rests
# on the conditioning methods leaving every pre-existing list object alone (their frames), so these functions join the two cones
FRAME_CONE = ['tad.Node.prune_paths', 'tad.PlayerOne.prune_paths', 'tad.ProbabilisticNode.prune_paths', 'tad.PlayerOne.prune_paths_reachability',
              'tad.Solver.prune_paths', 'tad.Solver.prune_reachability', 'tad.Solver.prune_states', 'tad.Solver.prune_stochastich_game']
for _p in ('C01', 'C04'):
    PROPS[_p]['functions'] = PROPS[_p]['functions'] + [q for q in FRAME_CONE if q not in PROPS[_p]['functions']]
    PROPS[_p]['lemmas'] = PROPS[_p]['lemmas'] + [l for l in COND_LEMMAS if l not in PROPS[_p]['lemmas']]
    PROPS[_p]['level_text'] += (" The statement is about every solve, including one that follows a pruned solve of the same lists: the frames of the"
                                " conditioning methods (no list object that existed before is modified) are discharged in this cone too.")

PROPS['C14']['level_text'] += (" The stopping rule is proved to cover all three vectors: when the reward sweep returns, its last sweep changed neither the"
                               " expected rewards nor either diagnostic vector by more than the threshold at any state (obligations inv-step#L1.9/10, hint-return).")
PROPS['C09']['level_text'] += (" count_transitions, which the batch runner calls on the still unvalidated description, is proved exception-free for arbitrary"
                               " Python values as entries of the transition list.")

# ---- C13: the transition-order half of the two-run relation is mechanised at the level of the spec functions
from .tad_spec import PERM_LEMMAS  # noqa: E402
PROPS['C13']['lemmas'] = PROPS['C13']['lemmas'] + PERM_LEMMAS
PROPS['C13']['level_text'] += (" Transition order: since every routine is proved equal to its spec function for EVERY list, the outcome for a reordered list is the"
                               " spec function of the reordered list; the lemmas L_<F>_swap prove MaxS, MinS, SumS, MaxR, MinR and SumP invariant under the exchange of two"
                               " neighbouring transitions (every reordering is a product of such exchanges), and L_ArgEqR_mem / L_FA_mem characterise membership in the"
                               " arg-lists and in the conditioned lists without reference to positions (so the reported action SETS and the kept transition SETS agree for any reordering).")
PROPS['C13']['undecided_clauses'] = ["C13 relates TWO runs on two presentations; a contract speaks about one run. Mechanised: each routine equals a spec function of its input list (all inputs), and the spec functions are invariant under"
                                     " exchanging neighbouring transitions / have position-free membership (PERM_LEMMAS); that invariance under neighbour exchanges at every position implies invariance under EVERY permutation is the Lean theorem M_PERM / M_PERM_pred (lean/Meta.lean, checked on every run; the reading of the SMT array-lists as Lean lists is by hand). NOT mechanised: the renaming of actions"
                                     " (labels are only compared for equality: argued), and the RENUMBERING OF STATES, which changes the Gauss-Seidel sweep order and hence the iterates",
                                     PROPS['C13']['undecided_clauses'][1]]

# ---- A-SUMMARY, frame half, inside C12's own cone: run_games is verified against the summary "solve modifies nothing of the description";
# the concrete statement behind it -- the suffix of solve and every conditioning method leave every pre-existing list object and every
# field of the game object alone -- is discharged in the same run (solve@typed composes the callees' contracts; the frames of the
# conditioning methods are those contracts' own obligations)
_C12_EXTRA = ['tad.StochasticGame.solve@typed'] + FRAME_CONE
PROPS['C12']['functions'] = PROPS['C12']['functions'] + [q for q in _C12_EXTRA if q not in PROPS['C12']['functions']]
PROPS['C12']['lemmas'] = list(PROPS['C12'].get('lemmas', [])) + [l for l in PROPS['C10'].get('lemmas', []) if l not in PROPS['C12'].get('lemmas', [])]
PROPS['C12']['level_text'] += (" The frame half of the summary contract of solve (A-SUMMARY: the description is not modified, so the unpruned solve of the same copy and every later game see"
                               " what the file denotes) is discharged in this cone on the concrete code: the frame of the typed suffix of StochasticGame.solve and of every conditioning method.")
PROPS['C12']['undecided_clauses'] = ["that the summary contracts hold of the real StochasticGame methods: the FRAME half (nothing of the description is modified) is discharged in this cone (solve@typed and the conditioning methods); the FUNCTIONAL half (the result is a function of the description and the mode) is the static determinism scan of C10 -- linked by hand",
                                     PROPS['C12']['undecided_clauses'][1]]

# ---- the assumed contract of argparse (A-EXT) is tied to the real init_parser declarations by a static obligation
_GEN_ARGS = {'seed': 'int', 'width': 'int', 'length': 'int', 'max_reward': 'int', 'prob_robot_break': 'float', 'prob_light_break': 'float',
             'prob_tile_break': 'float', 'prob_loose_tile': 'float', 'force_down': 'bool'}
for _p in ('C15', 'C17', 'C11'):
    PROPS[_p]['static'] = list(PROPS[_p].get('static', [])) + [('generator-parser-declares-the-assumed-field-types', ST.parser_declares('roberta_generator', _GEN_ARGS))]
for _p in ('C16', 'C12'):
    PROPS[_p]['static'] = list(PROPS[_p].get('static', [])) + [('runner-parser-declares-the-assumed-field-types',
                                                                ST.parser_declares('conditionalrewards', {'file': 'str', 'log_level': 'str', 'save_results': 'bool'}))]

for _p in ('C08', 'C11'):
    PROPS[_p]['static'] = list(PROPS[_p].get('static', [])) + [('writers-emit-only-the-pretty-printed-dictionary', ST.writer_tail_idiom('roberta_generator', ['write_robot_A', 'write_robot_B', 'write_robot_C']))]

# ---- the one assumed library fact behind Solver.__init__'s verified contract, listed wherever that function is in the cone
A_LOG10 = ("A-LOG10: math.log(x, 10) for x = the double 10**(-6) returns a float in [-6, -5) (CPython: -5.999999999999999); this replaces the formerly ASSUMED contract of "
           "Solver.__init__, which is now verified from its body; the static obligation solver-constants re-evaluates the real expression on every run")
for _p, _d in PROPS.items():
    if 'tad.Solver.__init__' in _d.get('functions', []) and A_LOG10 not in _d.get('assumptions', []):
        _d['assumptions'] = list(_d.get('assumptions', [])) + [A_LOG10]

PROPS['C16']['level_text'] += (" conditionalrewards.main is verified against summaries of the three functions it calls: the batch runs on what was read from the file named by -f, and"
                               " that result is saved under the same name exactly when -s is given (nothing is saved otherwise, nor when the input is refused).")
PROPS['C08']['level_text'] += " write_robots is verified to hand each writer the caller's board and exactly the probabilities of its game, in parameter order."
_MANUAL_TXT = (" The second entry point, stochastic_game_from_roborta_board.create_sg_from_board (boards given by hand), is verified too: it derives length and width from the grid, its"
               " precondition (a rectangular non-empty board, arrows 0..3, probabilities in (0,1)) implies write_robots' precondition, and the three grids and the three probabilities reach"
               " write_robots unchanged, each probability in the parameter position of ITS kind (the entry point receives them in another order); get_max_from_matrix returns the largest entry"
               " and cannot raise on such a board. A static obligation pins the shape of the writers' text tail (only constant text and one str(game).replace(const, const)... are written).")
PROPS['C08']['level_text'] += _MANUAL_TXT
PROPS['C11']['level_text'] += _MANUAL_TXT

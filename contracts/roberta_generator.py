"""Sidecar contracts for /repo/roberta_generator.py (C08, C11, C15, C17)."""
from pyvc.ty import *

C = {}


def contract(name, **kw):
    kw.setdefault('heap', [])
    kw.setdefault('lheap', [])
    kw.setdefault('props', [])
    C['roberta_generator.' + name] = kw


# ------------------------------------------------------------------ check_input (C15): Float64 for the four probabilities
PROBS4 = ['prob_robot_break', 'prob_light_break', 'prob_loose_tile', 'prob_tile_break']
ACCEPT = ["seed >= 0", "width >= 1", "length >= 1", "max_reward >= 1"] + [f"0 < {p} and {p} < 1" for p in PROBS4]
contract('check_input', float_mode='fp64',
         params=dict([('seed', INT), ('width', INT), ('length', INT), ('prob_robot_break', FP), ('prob_light_break', FP), ('prob_loose_tile', FP),
                      ('prob_tile_break', FP), ('max_reward', INT)]),
         requires=[], modifies={},
         ensures=ACCEPT + [f"not isnan({p})" for p in PROBS4],                # a normal return means every documented range holds
         raises=dict(exc=['ValueError'], when=["not (" + " and ".join(f"({c})" for c in ACCEPT) + ")"], ensures=[]),
         props=['C15', 'C11'])

# ------------------------------------------------------------------ prob_to_str (C17): every k/100 appears as k  (99 ground instances, exhaustive)
contract('prob_to_str', float_mode='fp64',
         params={'prob': FP}, result=STR, requires=[], modifies={}, ensures=[],
         instances=[(f'k={k}', [f"prob == fp({k / 100!r})"], [f"result == '{k}'"]) for k in range(1, 100)],
         props=['C17'])

# ------------------------------------------------------------------ assumed contracts of external functions (DESIGN 5.4), listed in the evidence
from z3 import Function, RealSort, IntSort, And, Or, Implies, ForAll, Exists, Int, Real, RealVal, IntVal, ToInt, ToReal, If
from pyvc.engine import spec, SPEC, Unsupported
from pyvc.ty import fresh, fresh_int, L_len, L_arr
import pyvc.ty as Ty
LN = Function('LN', RealSort(), RealSort())
POW2 = Function('POW2', RealSort(), RealSort())
LLI = LIST(LIST(INT))
LI = LIST(INT)


def ext_random(s, st, e):          # random.random(): some float in [0, 1), 0.0 included
    u = fresh('u', REAL)
    st.pc.append(And(u >= 0, u < 1))
    st.env.setdefault('__draws', (0, None))
    return u, REAL


def ext_seed(s, st, e):
    s.ev(e.args[0], st)
    return Ty.BoolVal(False), NONE


def ext_choices(s, st, e):         # random.choices(pop, weights, k=k): a fresh list of k members of pop
    pop, tp = s.ev(e.args[0], st)
    k = None
    for kw in e.keywords:
        if kw.arg == 'k':
            k, _ = s.ev(kw.value, st)
    if k is None or tp != LI:
        raise Unsupported('random.choices form')
    r = fresh('choices', LI)
    i, j = Int(f'i!c{next(Ty._fresh)}'), Int(f'j!c{next(Ty._fresh)}')
    st.pc.append(L_len(r, LI) == If(k >= 0, k, 0))
    st.pc.append(ForAll([i], Implies(And(0 <= i, i < L_len(r, LI)), Exists([j], And(0 <= j, j < L_len(pop, LI), L_arr(r, LI)[i] == L_arr(pop, LI)[j])))))
    return r, LI


def ext_randrange(s, st, e):       # random.randrange(a, b): an int in [a, b); raises ValueError when the range is empty
    a, _ = s.ev(e.args[0], st)
    b, _ = s.ev(e.args[1], st)
    s.safe(st, 'randrange-nonempty', b > a, e.lineno)
    r = fresh_int('rr')
    st.pc.append(And(a <= r, r < b))
    return r, INT


def ext_log(s, st, e):             # math.log(x): defined for x > 0; negative on (0,1), non-negative from 1 on; log 2 > 0
    x, t = s.ev(e.args[0], st)
    x = s.coerce(x, t, REAL)[0]
    s.safe(st, 'log-domain', x > 0, e.lineno)
    st.pc.append(And(Implies(And(x > 0, x < 1), LN(x) < 0), Implies(x >= 1, LN(x) >= 0), LN(RealVal(2)) > 0))
    return LN(x), REAL


def ext_floor(s, st, e):           # math.floor(x): the largest integer <= x
    x, t = s.ev(e.args[0], st)
    return ToInt(s.coerce(x, t, REAL)[0]), INT


def ext_pow(s, st, a, b, t):       # 2.0 ** k: >= 1 for k >= 0 and >= 2 for k >= 1 (A-REAL: no overflow)
    from z3 import simplify, is_rational_value
    sa = simplify(a)
    if not (t == REAL or t == INT) or str(sa) not in ('2', '2.0'):
        raise Unsupported('power with a base other than 2.0')
    b = ToReal(b) if t == INT else b
    st.pc.append(And(Implies(b >= 0, POW2(b) >= 1), Implies(b >= 1, POW2(b) >= 2)))
    return POW2(b), REAL


EXT = {'random.random': ext_random, 'random.seed': ext_seed, 'random.choices': ext_choices, 'random.randrange': ext_randrange,
       'math.log': ext_log, 'math.floor': ext_floor, 'pow': ext_pow}


def board_shape(m, length='length', width='width'):
    return [f"len({m}) == {length}", f"forall(a, 0, {length}, len({m}[a]) == {width})"]


# ------------------------------------------------------------------ gen_rnd_board / get_random_moves (C15)
contract('get_random_moves', externals=EXT,
         params={'length': INT, 'width': INT, 'force_down': BOOL}, result=LLI, locals={'moves': LLI, 'i': INT, 'move_down': INT},
         requires=["length >= 1", "width >= 1"], modifies={},
         ensures=board_shape('result') + [
             "forall(a, 0, length, forall(b, 0, width, 0 <= result[a][b] and result[a][b] <= 3))",
             "implies(not force_down, forall(a, 0, length, forall(b, 0, width, result[a][b] <= 2)))",            # no down-only tile without force-down
             "implies(force_down, forall(a, 0, length, exists(b, 0, width, result[a][b] == 3)))"],               # at least one per row with it
         loops={0: dict(inv=["len(moves) == _i", "forall(a, 0, _i, len(moves[a]) == width)",
                             "forall(a, 0, _i, forall(b, 0, width, 0 <= moves[a][b] and moves[a][b] <= 3))",
                             "implies(not force_down, forall(a, 0, _i, forall(b, 0, width, moves[a][b] <= 2)))",
                             "implies(force_down, forall(a, 0, _i, exists(b, 0, width, moves[a][b] == 3)))"])},
         props=['C15', 'C11'])
contract('gen_rnd_board', externals=EXT,
         params={'seed': INT, 'length': INT, 'width': INT, 'prob_loose_tile': REAL, 'max_reward': INT, 'force_down': BOOL},
         defaults={'max_reward': '6', 'force_down': 'False'},
         result=TUP(LLI, LLI, LLI), locals={'moves': LLI, 'rewards': LLI, 'loose_tiles': LLI, 'move_max': INT, 'i': INT, '_': INT},
         requires=["length >= 1", "width >= 1", "max_reward >= 1", "0 < prob_loose_tile and prob_loose_tile < 1", "seed >= 0"], modifies={},
         ensures=board_shape('result[0]') + board_shape('result[1]') + board_shape('result[2]') + [
             "forall(a, 0, length, forall(b, 0, width, 0 <= result[1][a][b] and result[1][a][b] <= max_reward))",
             "forall(a, 0, length, forall(b, 0, width, result[2][a][b] == 0 or result[2][a][b] == 1))",
             "forall(a, 0, length, forall(b, 0, width, 0 <= result[0][a][b] and result[0][a][b] <= 3))",
             "implies(not force_down, forall(a, 0, length, forall(b, 0, width, result[0][a][b] <= 2)))",
             "implies(force_down, forall(a, 0, length, exists(b, 0, width, result[0][a][b] == 3)))"],
         loops={0: dict(inv=["len(rewards) == _i", "len(loose_tiles) == _i", "forall(a, 0, _i, len(rewards[a]) == width and len(loose_tiles[a]) == width)",
                             "forall(a, 0, _i, forall(b, 0, width, 0 <= rewards[a][b] and rewards[a][b] <= max_reward))",
                             "forall(a, 0, _i, forall(b, 0, width, loose_tiles[a][b] == 0 or loose_tiles[a][b] == 1))"]),
                1: dict(inv=["len(rewards) == i + 1", "len(loose_tiles) == i + 1", "i == _i", "0 <= i and i < length",
                             "len(rewards[i]) == _i1", "len(loose_tiles[i]) == _i1",
                             "forall(a, 0, i, len(rewards[a]) == width and len(loose_tiles[a]) == width)",
                             "forall(a, 0, i, forall(b, 0, width, 0 <= rewards[a][b] and rewards[a][b] <= max_reward))",
                             "forall(a, 0, i, forall(b, 0, width, loose_tiles[a][b] == 0 or loose_tiles[a][b] == 1))",
                             "forall(b, 0, _i1, 0 <= rewards[i][b] and rewards[i][b] <= max_reward)",
                             "forall(b, 0, _i1, loose_tiles[i][b] == 0 or loose_tiles[i][b] == 1)"])},
         props=['C15', 'C11'])

# ------------------------------------------------------------------ main (C15: refused before anything is written; C17: the file name)
from z3 import StringVal, Concat, IntToStr, fpMul, fpRoundToIntegral, fpToReal, RNE, FPVal, Float64, StringSort
ARGS = REF('Args')
FIELDS = {'seed': INT, 'width': INT, 'length': INT, 'max_reward': INT, 'prob_loose_tile': FP, 'prob_tile_break': FP,
          'prob_robot_break': FP, 'prob_light_break': FP, 'force_down': BOOL}
# PTS(p): the decimal string of p*100 rounded to the nearest integer -- "the probability as a whole percentage"
PTS = spec('PTS', [FP], STR)
_pct = lambda p: ToInt(fpToReal(fpRoundToIntegral(RNE(), fpMul(RNE(), p, FPVal(100.0, Float64())))))
SPEC['PTS']['unfold'] = lambda p: PTS(p) == If(_pct(p) >= 0, IntToStr(_pct(p)), Concat(StringVal("-"), IntToStr(-_pct(p))))
C['roberta_generator.prob_to_str']['ensures'] = ["result == PTS(prob)"]
C['roberta_generator.prob_to_str']['props'] = ['C17', 'C15']
STRI = lambda x: f"str({x})"
A_ = "parsed_args"
NAME = ("'inputs/robot_' + str({a}.seed) + '_' + 'w' + str({a}.width) + '_' + 'l' + str({a}.length) + '_' + 'r' + str({a}.max_reward) + '_' + "
        "'rb' + PTS({a}.prob_robot_break) + '_' + 'lb' + PTS({a}.prob_light_break) + '_' + 'tb' + PTS({a}.prob_tile_break) + '_' + 'lt' + PTS({a}.prob_loose_tile) + "
        "('_force_down' if {a}.force_down else '') + '.py'")
ARGS_OK = [f"{A_}.seed >= 0", f"{A_}.width >= 1", f"{A_}.length >= 1", f"{A_}.max_reward >= 1"] + [f"0 < {A_}.{p} and {A_}.{p} < 1" for p in PROBS4]
contract('init_parser', external=True, params={}, result=REF('Parser'), requires=[], ensures=[], modifies={}, props=[])
contract('Parser.parse_args', external=True, params={'self': REF('Parser')}, result=ARGS, requires=[], ensures=[], modifies={}, props=[])
contract('write_robots', external_for_main=True,
         params={'file_name': STR, 'length': INT, 'width': INT, 'moves': LLI, 'rewards': LLI, 'loose_tiles': LLI, 'prob_tile_break': REAL,
                 'prob_robot_break': REAL, 'prob_light_break': REAL},
         requires=[], ensures=[], modifies={}, props=[])
contract('main', float_mode='fp64', heap=list(FIELDS), class_module={'Parser': 'roberta_generator', 'Args': 'roberta_generator'},
         params={}, locals={'parser': REF('Parser'), 'parsed_args': ARGS},
         requires=[], ensures=ARGS_OK, modifies={},
         # the only exception main lets escape is check_input's ValueError, and only for a parameter set outside the documented ranges
         raises=dict(exc=['ValueError'], when=[], ensures=["not (" + " and ".join(f"({c})" for c in ARGS_OK) + ")"]),
         call_asserts={'write_robots': ["file_name == " + NAME.format(a='AR')] + [c.replace(A_, 'AR') for c in ARGS_OK]
                       + ["length == AR.length", "width == AR.width",
                          # the three break probabilities reach the writers as given on the command line, each in its own place
                          "prob_tile_break == real(AR.prob_tile_break)", "prob_robot_break == real(AR.prob_robot_break)", "prob_light_break == real(AR.prob_light_break)"],
                       # the board is THE board of the parsed parameters: every argument of gen_rnd_board is the parsed value itself
                       'gen_rnd_board': ["seed == AR.seed", "length == AR.length", "width == AR.width", "prob_loose_tile == real(AR.prob_loose_tile)",
                                         "max_reward == AR.max_reward", "force_down == AR.force_down"]},
         ghost_args={}, alias_for_asserts={'AR': 'parsed_args'},
         calls_exactly=['init_parser', 'Parser.parse_args', 'check_input', 'gen_rnd_board'] + ['prob_to_str'] * 4 + ['write_robots'],
         props=['C15', 'C17', 'C11'])

# ------------------------------------------------------------------ the nine transition builders (C08, C11): positional contracts
# Each builder returns one transition list per tile, tile (a, b) at position a*width + b. Cell_<builder>(..., a, b) is what the
# Roborta rules of the property statement prescribe for that tile (labels, probabilities, targets, order).
NS = LIST(TRANS)
TLT = LIST(NS)
G, Y, D, L_, R_ = (StringVal(x) for x in ("Green", "Yellow", "Down", "Left", "Right"))


def T_(lab=None, prob=None, tgt=None):
    return trans_mk(lab=lab, prob=prob, tgt=tgt)


def mv(moves, a, b):
    return L_arr(L_arr(moves, LLI)[a], LI)[b]


def lits(*xs):
    return L_lit(NS, list(xs))


def left_of(b, w):      # wrap-around within the row
    return If(b == 0, w - 1, b - 1)


def right_of(b, w):
    return If(b == w - 1, IntVal(0), b + 1)


BUILDERS = {}


def builder(name, params, cell, extra_req=(), locals_=None):
    """params: ordered [(name, T)] after (length, width); cell(length, width, *params, a, b) -> z3 list term"""
    argts = [INT, INT] + [t for _, t in params] + [INT, INT]
    f = spec('Cell_' + name, argts, NS)
    SPEC['Cell_' + name]['unfold'] = lambda *args: f(*args) == cell(*args)
    pn = ['length', 'width'] + [p for p, _ in params]
    call = lambda a, b: f"Cell_{name}({', '.join(pn)}, {a}, {b})"
    BUILDERS[name] = (f, pn)
    shape = ["length >= 1", "width >= 1"] + list(extra_req)
    contract(name, params=dict([('length', INT), ('width', INT)] + list(params)), result=TLT,
             locals=dict(dict(transition_list=TLT, transition=NS, i=INT, j=INT), **(locals_ or {})),
             requires=shape, modifies={},
             ensures=["len(result) == length * width", f"forall(a, 0, length, forall(b, 0, width, result[a * width + b] == {call('a', 'b')}))"],
             loops={0: dict(inv=["len(transition_list) == _i * width",
                                 f"forall(a, 0, _i, forall(b, 0, width, transition_list[a * width + b] == {call('a', 'b')}))"]),
                    1: dict(inv=["len(transition_list) == i * width + _i1", "i == _i", "0 <= i and i < length",
                                 f"forall(a, 0, length, forall(b, 0, width, implies(a < i or (a == i and b < _i1), transition_list[a * width + b] == {call('a', 'b')})))"])},
             props=['C08', 'C11'])


MOVES_OK = ["len(moves) == length", "forall(a, 0, length, len(moves[a]) == width)", "forall(a, 0, length, forall(b, 0, width, 0 <= moves[a][b] and moves[a][b] <= 3))"]
LOOSE_OK = ["len(loose_tiles) == length", "forall(a, 0, length, len(loose_tiles[a]) == width)"]
# the light: Green always (robot must move down); Yellow unless the tile is down-only
builder('player_two_transitions', [('moves', LLI), ('offset_r', INT), ('offset_y', INT)],
        lambda l, w, moves, o_r, o_y, a, b: If(mv(moves, a, b) != 3, lits(T_(lab=G, tgt=o_r + a * w + b), T_(lab=Y, tgt=o_y + a * w + b)), lits(T_(lab=G, tgt=o_r + a * w + b))),
        extra_req=MOVES_OK)
# robot told to go down: game A lands on the tile below (wins from the last row); B, C go to the "try down" state of the tile
OI = OPT(INT)
builder('player_one_down_transitions', [('offset', INT), ('winning_state', OI)],
        lambda l, w, off, win, a, b: If(Or(Ty.S(OI).isnone(win), Ty.S(OI).val(win) == 0), lits(T_(lab=D, tgt=off + a * w + b)),
                                        If(a < l - 1, lits(T_(lab=D, tgt=off + a * w + b + w)), lits(T_(lab=D, tgt=Ty.S(OI).val(win))))))
C['roberta_generator.player_one_down_transitions']['defaults'] = {'winning_state': 'None'}
# robot told to go left or right, as the arrows allow; game A (offset_l == offset_r) lands directly, wrapping within the row;
# a down-only tile gets a placeholder the light never offers
def _lr(l, w, moves, o_l, o_r, a, b):
    Lt = T_(lab=L_, tgt=If(o_l != o_r, o_l + a * w + b, o_l + a * w + left_of(b, w)))
    Rt = T_(lab=R_, tgt=If(o_l != o_r, o_r + a * w + b, o_r + a * w + right_of(b, w)))
    m = mv(moves, a, b)
    return If(m == 0, lits(Lt), If(m == 1, lits(Lt, Rt), If(m == 2, lits(Rt), lits(T_(lab=StringVal("Etha"), tgt=IntVal(0))))))


builder('player_one_left_right_transitions', [('moves', LLI), ('offset_l', INT), ('offset_r', INT)], _lr, extra_req=MOVES_OK)
# landing on a tile: a loose tile breaks with the tile-break probability (robot lost), otherwise the light's turn on that tile
builder('prob_tile_break_transitions', [('prob_tile_break', REAL), ('loose_tiles', LLI), ('offset', INT), ('loosing_state', INT)],
        lambda l, w, p, loose, off, lose, a, b: If(mv(loose, a, b) == 1, lits(T_(prob=p, tgt=lose), T_(prob=1 - p, tgt=off + a * w + b)), lits(T_(prob=RealVal(1), tgt=off + a * w + b))),
        extra_req=LOOSE_OK)
# games B, C: the robot fails with its probability and stays on its tile (lands there again); otherwise it moves
builder('prob_robot_down_break_transitions', [('prob_robot_break', REAL), ('offset', INT), ('winning_state', INT)],
        lambda l, w, p, off, win, a, b: lits(T_(prob=p, tgt=off + a * w + b), T_(prob=1 - p, tgt=If(a < l - 1, off + a * w + b + w, win))))
builder('prob_robot_left_break_transitions', [('prob_robot_break', REAL), ('offset', INT)],
        lambda l, w, p, off, a, b: lits(T_(prob=p, tgt=off + a * w + b), T_(prob=1 - p, tgt=off + a * w + left_of(b, w))))
builder('prob_robot_right_break_transitions', [('prob_robot_break', REAL), ('offset', INT)],
        lambda l, w, p, off, a, b: lits(T_(prob=p, tgt=off + a * w + b), T_(prob=1 - p, tgt=off + a * w + right_of(b, w))))
# game C, light failed: the robot chooses freely among down and the tile's arrows
def _dlr(l, w, moves, o_d, o_l, o_r, a, b):
    Dn, Lt, Rt = T_(lab=D, tgt=o_d + a * w + b), T_(lab=L_, tgt=o_l + a * w + b), T_(lab=R_, tgt=o_r + a * w + b)
    m = mv(moves, a, b)
    return If(m == 0, lits(Dn, Lt), If(m == 1, lits(Dn, Lt, Rt), If(m == 2, lits(Dn, Rt), lits(Dn))))


builder('player_one_down_left_right_transitions', [('moves', LLI), ('offset_d', INT), ('offset_l', INT), ('offset_r', INT)], _dlr, extra_req=MOVES_OK)
# game C: the light fails with its probability (free choice), otherwise the robot must obey
builder('prob_light_break_transitions', [('prob_light_break', REAL), ('offset_ok', INT), ('offset_break', INT)],
        lambda l, w, p, ok, brk, a, b: lits(T_(prob=p, tgt=brk + a * w + b), T_(prob=1 - p, tgt=ok + a * w + b)))

# ---- tile index: Idx(a, b, w) = a*w + b, as a named function so that its range lemma has a trigger
from pyvc.lemmas import lemma
Idx = spec('Idx', [INT, INT, INT], INT)
SPEC['Idx']['unfold'] = lambda a, b, w: Idx(a, b, w) == a * w + b
lemma('L_Idx_bound', [('a', INT), ('b', INT), ('l', INT), ('w', INT)],
      lambda a, b, l, w: Implies(And(0 <= a, a < l, 0 <= b, b < w), And(0 <= Idx(a, b, w), Idx(a, b, w) < l * w, Idx(a, b, w) == a * w + b)))

# ---- flattening a board row by row: FlatOff(L, a) = number of elements in the first a rows (the engine's encoding of
# [x for row in L for x in row]); with rows of equal length w it is a*w
from pyvc.engine import sha as _sha
_FO = 'FlatOff_' + _sha(repr(LLI))
FlatOff = spec(_FO, [LLI, INT], INT)
SPEC[_FO]['unfold'] = lambda L, a: FlatOff(L, a) == If(a <= 0, IntVal(0), FlatOff(L, a - 1) + L_len(L_arr(L, LLI)[a - 1], LI))
SPEC['FlatOff'] = SPEC[_FO]


def _rows_w(L, w, a):
    k = Int('k!fo')
    return ForAll([k], Implies(And(0 <= k, k < a), L_len(L_arr(L, LLI)[k], LI) == w))


lemma('L_FlatOff_uniform', [('L', LLI), ('w', INT), ('a', INT)], lambda L, w, a: Implies(_rows_w(L, w, a), FlatOff(L, a) == a * w), ind='a')

# ------------------------------------------------------------------ write_robot_A/B/C up to `game = {...}` (C08, C11): the assembly
# The three functions share one shape: groups of n_tiles states each, in a fixed order, then the losing and the winning state.
# GROUPS[X] lists, per group, the builder and the arguments the Roborta rules prescribe (offsets are group indices times n_tiles).
NT = "n_tiles"


def grp(k):
    return f"{k} * ({NT})"


GAMES = {
    'A': dict(total=4, p1_groups=2, prob_groups=1, params=[('prob_tile_break', REAL)],
              groups=[('player_two_transitions', ['moves', grp(1), grp(2)]),
                      ('player_one_down_transitions', [grp(3), f"some_int({grp(4)} + 1)"]),
                      ('player_one_left_right_transitions', ['moves', grp(3), grp(3)]),
                      ('prob_tile_break_transitions', ['prob_tile_break', 'loose_tiles', '0', grp(4)])]),
    'B': dict(total=7, p1_groups=2, prob_groups=4, params=[('prob_tile_break', REAL), ('prob_robot_break', REAL)],
              groups=[('player_two_transitions', ['moves', grp(1), grp(2)]),
                      ('player_one_down_transitions', [grp(4), "none_int()"]),
                      ('player_one_left_right_transitions', ['moves', grp(5), grp(6)]),
                      ('prob_tile_break_transitions', ['prob_tile_break', 'loose_tiles', '0', grp(7)]),
                      ('prob_robot_down_break_transitions', ['prob_robot_break', grp(3), f"{grp(7)} + 1"]),
                      ('prob_robot_left_break_transitions', ['prob_robot_break', grp(3)]),
                      ('prob_robot_right_break_transitions', ['prob_robot_break', grp(3)])]),
    'C': dict(total=10, p1_groups=3, prob_groups=6, params=[('prob_tile_break', REAL), ('prob_robot_break', REAL), ('prob_light_break', REAL)],
              groups=[('player_two_transitions', ['moves', grp(8), grp(9)]),
                      ('player_one_down_transitions', [grp(5), "none_int()"]),
                      ('player_one_left_right_transitions', ['moves', grp(6), grp(7)]),
                      ('player_one_down_left_right_transitions', ['moves', grp(5), grp(6), grp(7)]),
                      ('prob_tile_break_transitions', ['prob_tile_break', 'loose_tiles', '0', grp(10)]),
                      ('prob_robot_down_break_transitions', ['prob_robot_break', grp(4), f"{grp(10)} + 1"]),
                      ('prob_robot_left_break_transitions', ['prob_robot_break', grp(4)]),
                      ('prob_robot_right_break_transitions', ['prob_robot_break', grp(4)]),
                      ('prob_light_break_transitions', ['prob_light_break', grp(1), grp(3)]),
                      ('prob_light_break_transitions', ['prob_light_break', grp(2), grp(3)])]),
}
BOARD_OK = (["length >= 1", "width >= 1"] + MOVES_OK + LOOSE_OK +
            ["len(rewards) == length", "forall(a, 0, length, len(rewards[a]) == width)"])
for X, G_ in GAMES.items():
    total = G_['total']
    pos = []            # positional facts, group by group
    for gi, (bname, args) in enumerate(G_['groups']):
        pos.append(f"forall(a, 0, length, forall(b, 0, width, transition_list[{gi} * ({NT}) + Idx(a, b, width)] == Cell_{bname}(length, width, {', '.join(args)}, a, b)))")
    after_ext = {}
    after_call0 = dict(hints=["len(transition_list) == 1 * (" + NT + ")", pos[0]])
    for gi in range(1, len(G_['groups'])):
        after_ext[gi - 1] = [f"len(transition_list) == {gi + 1} * ({NT})"] + pos[:gi + 1]
    NTOT = f"{total} * ({NT})"
    contract(f'write_robot_{X}',
             params=dict([('my_file', FILE), ('length', INT), ('width', INT), ('moves', LLI), ('rewards', LLI), ('loose_tiles', LLI)] + G_['params']),
             locals={'my_rewards': LI, 'my_players': LIST(STR), 'my_final_states': LI, 'transition_list': TLT, 'n_tiles': INT, 'loosing_state': INT, 'winning_state': INT,
                     'reward': INT, 'sublist': LI, 'i': INT, '__addend': TLT},
             requires=BOARD_OK, modifies={},
             cut_before_assign='game',
             use_after_assign={'n_tiles': ["forall(a, forall(b, L_Idx_bound(a, b, length, width)))"],
                               'my_rewards': ["forall(a, 0, length + 1, L_FlatOff_uniform(rewards, width, a))"]},
             hints_after_assign={'my_rewards': [f"len(my_rewards) == {NTOT} + 2",
                                                f"forall(a, 0, length, forall(b, 0, width, my_rewards[Idx(a, b, width)] == rewards[a][b]))",
                                                f"forall(k, {NT}, {NTOT} + 2, my_rewards[k] == 0)"]},
             after_call={f"{G_['groups'][0][0]}#0": after_call0},
             after_extend=after_ext,
             # stated over the VALUES of the dict the function goes on to write (cut('<key>')), not over the temporaries that hold them
             ensures_at_cut=[c_.replace('transition_list', "cut('transition_list')") for c_ in [f"len(transition_list) == {NTOT} + 2"] + pos] + [
                 f"cut('transition_list')[{NTOT}] == [(1, {NTOT})]", f"cut('transition_list')[{NTOT} + 1] == [(1, {NTOT} + 1)]",      # absorbing loser and winner
                 f"cut('final_states') == [{NTOT} + 1]",                                                                      # the only final state is the winner
                 f"len(cut('players')) == {NTOT} + 2",
                 f"forall(k, 0, {NT}, cut('players')[k] == 'Player 2')",
                 f"forall(k, {NT}, {1 + G_['p1_groups']} * ({NT}), cut('players')[k] == 'Player 1')",
                 f"forall(k, {1 + G_['p1_groups']} * ({NT}), {NTOT} + 2, cut('players')[k] == 'Probabilistic')",
                 f"len(cut('rewards')) == {NTOT} + 2",
                 f"forall(a, 0, length, forall(b, 0, width, cut('rewards')[Idx(a, b, width)] == rewards[a][b]))",                # the tile's reward is collected on the light's turn
                 f"forall(k, {NT}, {NTOT} + 2, cut('rewards')[k] == 0)"],
             list_eq_structural=True,
             props=['C08', 'C11'])



# ------------------------------------------------------------------ write_robots (C08, C11): the wiring of the three writers
# The file named by the caller is opened for writing, and each writer receives the board and exactly the probabilities its game
# uses, in the order of its parameters (A: tile; B: tile, robot; C: tile, robot, light). The writers are called by contract.
contract('write_preamble', external_for_main=True,
         params={'my_file': FILE, 'length': INT, 'width': INT, 'moves': LLI, 'rewards': LLI, 'loose_tiles': LLI}, requires=[], ensures=[], modifies={}, props=[])
_SAME_BOARD = ["length == c_length", "width == c_width", "moves == c_moves", "rewards == c_rewards", "loose_tiles == c_loose"]
contract('write_robots',
         params={'file_name': STR, 'length': INT, 'width': INT, 'moves': LLI, 'rewards': LLI, 'loose_tiles': LLI, 'prob_tile_break': REAL,
                 'prob_robot_break': REAL, 'prob_light_break': REAL},
         locals={'my_file': FILE},
         requires=BOARD_OK, modifies={},
         ensures=["__path == file_name", "__mode == 'w'"],
         alias_for_asserts={'c_length': 'length', 'c_width': 'width', 'c_moves': 'moves', 'c_rewards': 'rewards', 'c_loose': 'loose_tiles',
                            'c_tb': 'prob_tile_break', 'c_rb': 'prob_robot_break', 'c_lb': 'prob_light_break'},
         call_asserts={'write_robot_A': _SAME_BOARD + ["prob_tile_break == c_tb"],
                       'write_robot_B': _SAME_BOARD + ["prob_tile_break == c_tb", "prob_robot_break == c_rb"],
                       'write_robot_C': _SAME_BOARD + ["prob_tile_break == c_tb", "prob_robot_break == c_rb", "prob_light_break == c_lb"],
                       'write_preamble': _SAME_BOARD},
         calls_exactly=['write_preamble', 'write_robot_A', 'write_robot_B', 'write_robot_C'],
         list_eq_structural=True,
         props=['C08', 'C11'])

"""Specification vocabulary for reverse_dfs.py (C07): counting functions and their lemmas."""
from z3 import If, And, Or, Not, Implies, ForAll, Exists, IntVal, Int, Const
from pyvc.ty import *
from pyvc.engine import spec, SPEC, LEMMAS
from pyvc.lemmas import lemma

LI = LIST(INT)
PII = TUP(INT, INT)
LP = LIST(PII)
NS = LIST(TRANS)
TL = LIST(NS)

# CountI(L, n, x): occurrences of x among the first n elements of an int list; CountP: same for int pairs;
# CountT(ns, v, n): transitions to v among the first n transitions of one state
CountI = spec('CountI', [LI, INT, INT], INT)
SPEC['CountI']['unfold'] = lambda L, n, x: CountI(L, n, x) == If(n <= 0, IntVal(0), CountI(L, n - 1, x) + If(L_arr(L, LI)[n - 1] == x, 1, 0))
CountP = spec('CountP', [LP, INT, PII], INT)
SPEC['CountP']['unfold'] = lambda L, n, x: CountP(L, n, x) == If(n <= 0, IntVal(0), CountP(L, n - 1, x) + If(L_arr(L, LP)[n - 1] == x, 1, 0))
CountT = spec('CountT', [NS, INT, INT], INT)
SPEC['CountT']['unfold'] = lambda ns, v, n: CountT(ns, v, n) == If(n <= 0, IntVal(0), CountT(ns, v, n - 1) + If(t_tgt(L_arr(ns, NS)[n - 1]) == v, 1, 0))


def _allk(n_, body, nm='k!c'):
    k = Int(nm)
    return ForAll([k], Implies(And(0 <= k, k < n_), body(k)))


def _exk(n_, body, nm='k!e'):
    k = Int(nm)
    return Exists([k], And(0 <= k, k < n_, body(k)))


# counts only look at the prefix
lemma('L_CountI_ext', [('A', LI), ('B', LI), ('n', INT), ('x', INT)], lambda A, B, n, x: Implies(_allk(n, lambda k: L_arr(A, LI)[k] == L_arr(B, LI)[k]), CountI(A, n, x) == CountI(B, n, x)), ind='n')
lemma('L_CountP_ext', [('A', LP), ('B', LP), ('n', INT), ('x', PII)], lambda A, B, n, x: Implies(_allk(n, lambda k: L_arr(A, LP)[k] == L_arr(B, LP)[k]), CountP(A, n, x) == CountP(B, n, x)), ind='n')
# a count is positive exactly when the element occurs
lemma('L_CountI_mem', [('A', LI), ('n', INT), ('x', INT)], lambda A, n, x: And(CountI(A, n, x) >= 0, (CountI(A, n, x) > 0) == _exk(n, lambda k: L_arr(A, LI)[k] == x)), ind='n')
lemma('L_CountT_mem', [('ns', NS), ('v', INT), ('n', INT)], lambda ns, v, n: And(CountT(ns, v, n) >= 0, (CountT(ns, v, n) > 0) == _exk(n, lambda k: t_tgt(L_arr(ns, NS)[k]) == v)), ind='n')
lemma('L_CountP_mem', [('A', LP), ('n', INT), ('x', PII)], lambda A, n, x: And(CountP(A, n, x) >= 0, (CountP(A, n, x) > 0) == _exk(n, lambda k: L_arr(A, LP)[k] == x)), ind='n')


def _inI(x, F):
    k = Int('k!in')
    return Exists([k], And(0 <= k, k < L_len(F, LI), L_arr(F, LI)[k] == x))


# FilterNotIn(V, F, i): the elements V[k], k < i, that are not in F, in order
FilterNotIn = spec('FilterNotIn', [LI, LI, INT], LI)
SPEC['FilterNotIn']['unfold'] = lambda V, F, i: FilterNotIn(V, F, i) == If(i <= 0, empty(LI), If(Not(_inI(L_arr(V, LI)[i - 1], F)), L_app(FilterNotIn(V, F, i - 1), LI, L_arr(V, LI)[i - 1]), FilterNotIn(V, F, i - 1)))
lemma('L_FNI_len', [('V', LI), ('F', LI), ('i', INT)], lambda V, F, i: And(L_len(FilterNotIn(V, F, i), LI) >= 0, L_len(FilterNotIn(V, F, i), LI) <= i), ind='i')
lemma('L_FNI_count', [('V', LI), ('F', LI), ('i', INT), ('x', INT)],
      lambda V, F, i, x: CountI(FilterNotIn(V, F, i), L_len(FilterNotIn(V, F, i), LI), x) == If(_inI(x, F), IntVal(0), CountI(V, i, x)), ind='i',
      hints=lambda V, F, i, x: [LEMMAS['L_FNI_len'](V, F, i - 1), LEMMAS['L_CountI_ext'](FilterNotIn(V, F, i), FilterNotIn(V, F, i - 1), L_len(FilterNotIn(V, F, i - 1), LI), x)])


def _distinct(L, n):
    a, b = Int('a!d'), Int('b!d')
    return ForAll([a, b], Implies(And(0 <= a, a < b, b < n), L_arr(L, LI)[a] != L_arr(L, LI)[b]))


def _le1(L, n):
    x = Int('x!d')
    return ForAll([x], CountI(L, n, x) <= 1)


lemma('L_distinct_le1', [('L', LI), ('n', INT), ('x', INT)], lambda L, n, x: Implies(_distinct(L, n), CountI(L, n, x) <= 1), ind='n',
      hints=lambda L, n, x: [LEMMAS['L_CountI_mem'](L, n - 1, x)])
lemma('L_CountI_step', [('L', LI), ('n', INT), ('x', INT)], lambda L, n, x: Implies(n >= 0, And(CountI(L, n + 1, x) == CountI(L, n, x) + If(L_arr(L, LI)[n] == x, 1, 0), CountI(L, n, x) >= 0)),
      hints=lambda L, n, x: [LEMMAS['L_CountI_mem'](L, n, x)])


def _allx(f):
    x = Int('x!q')
    return ForAll([x], f(x))


lemma('L_le1_distinct', [('L', LI), ('n', INT)], lambda L, n: Implies(_le1(L, n), _distinct(L, n)), ind='n',
      hints=lambda L, n: [LEMMAS['L_CountI_mem'](L, n - 1, L_arr(L, LI)[n - 1]), _allx(lambda x: LEMMAS['L_CountI_step'](L, n - 1, x))])


# ---- cardinality (termination of the work-list search and of prune_states): double counting over the value range [0, N)
# SumC(L, n, N) = sum over x in [0, N) of the occurrences of x among the first n elements of L
SumC = spec('SumC', [LI, INT, INT], INT)
SPEC['SumC']['unfold'] = lambda L, n, N: SumC(L, n, N) == If(N <= 0, IntVal(0), SumC(L, n, N - 1) + CountI(L, n, N - 1))


def _inrange(L, n, N):
    return _allk(n, lambda k: And(0 <= L_arr(L, LI)[k], L_arr(L, LI)[k] < N), 'k!r')


def _countle(A, nA, B, nB):
    x = Int('x!le')
    return ForAll([x], CountI(A, nA, x) <= CountI(B, nB, x))


lemma('L_SumC_zero', [('L', LI), ('N', INT)], lambda L, N: SumC(L, IntVal(0), N) == 0, ind='N')
lemma('L_SumC_step', [('L', LI), ('n', INT), ('N', INT)],
      lambda L, n, N: Implies(n >= 0, SumC(L, n + 1, N) == SumC(L, n, N) + If(And(0 <= L_arr(L, LI)[n], L_arr(L, LI)[n] < N), 1, 0)), ind='N',
      hints=lambda L, n, N: [LEMMAS['L_CountI_step'](L, n, N - 1)])
lemma('L_SumC_len', [('L', LI), ('n', INT), ('N', INT)], lambda L, n, N: Implies(_inrange(L, n, N), SumC(L, n, N) == n), ind='n',
      hints=lambda L, n, N: [LEMMAS['L_SumC_zero'](L, N), LEMMAS['L_SumC_step'](L, n - 1, N)])
lemma('L_SumC_le', [('L', LI), ('n', INT), ('N', INT)], lambda L, n, N: Implies(_le1(L, n), SumC(L, n, N) <= N), ind='N')
# pigeonhole: a duplicate-free list over [0, N) has at most N elements
lemma('L_pigeon', [('L', LI), ('n', INT), ('N', INT)],
      lambda L, n, N: Implies(And(n >= 0, N >= 0, _distinct(L, n), _inrange(L, n, N)), n <= N),
      hints=lambda L, n, N: [_allx(lambda x: LEMMAS['L_distinct_le1'](L, n, x)), LEMMAS['L_SumC_len'](L, n, N), LEMMAS['L_SumC_le'](L, n, N)])
lemma('L_SumC_mono', [('A', LI), ('nA', INT), ('B', LI), ('nB', INT), ('N', INT)],
      lambda A, nA, B, nB, N: Implies(_countle(A, nA, B, nB), SumC(A, nA, N) <= SumC(B, nB, N)), ind='N')


def _eq_below(A, nA, B, nB, N):
    x = Int('x!eb')
    return ForAll([x], Implies(And(0 <= x, x < N), CountI(A, nA, x) == CountI(B, nB, x)))


lemma('L_SumC_eq', [('A', LI), ('nA', INT), ('B', LI), ('nB', INT), ('N', INT)],
      lambda A, nA, B, nB, N: Implies(And(_countle(A, nA, B, nB), SumC(A, nA, N) == SumC(B, nB, N)), _eq_below(A, nA, B, nB, N)), ind='N',
      hints=lambda A, nA, B, nB, N: [LEMMAS['L_SumC_mono'](A, nA, B, nB, N - 1)])


def _subset(A, nA, B, nB):
    a, b = Int('a!ss'), Int('b!ss')
    return ForAll([a], Implies(And(0 <= a, a < nA), Exists([b], And(0 <= b, b < nB, L_arr(B, LI)[b] == L_arr(A, LI)[a]))))


lemma('L_subset_countle', [('A', LI), ('nA', INT), ('B', LI), ('nB', INT), ('x', INT)],
      lambda A, nA, B, nB, x: Implies(And(_distinct(A, nA), _subset(A, nA, B, nB)), CountI(A, nA, x) <= CountI(B, nB, x)),
      hints=lambda A, nA, B, nB, x: [LEMMAS['L_distinct_le1'](A, nA, x), LEMMAS['L_CountI_mem'](A, nA, x), LEMMAS['L_CountI_mem'](B, nB, x)])
lemma('L_count_subset', [('A', LI), ('nA', INT), ('B', LI), ('nB', INT), ('N', INT), ('b', INT)],
      lambda A, nA, B, nB, N, b: Implies(And(_inrange(B, nB, N), _eq_below(A, nA, B, nB, N), 0 <= b, b < nB),
                                         _exk(nA, lambda k: L_arr(A, LI)[k] == L_arr(B, LI)[b])),
      hints=lambda A, nA, B, nB, N, b: [LEMMAS['L_CountI_mem'](A, nA, L_arr(B, LI)[b]), LEMMAS['L_CountI_mem'](B, nB, L_arr(B, LI)[b])])


def _allb(f):
    b = Int('b!q')
    return ForAll([b], f(b))


# a duplicate-free list contained in another one over [0, N) is not longer, and if it is as long the two have the same elements
lemma('L_subset_card', [('A', LI), ('nA', INT), ('B', LI), ('nB', INT), ('N', INT)],
      lambda A, nA, B, nB, N: Implies(And(nA >= 0, nB >= 0, N >= 0, _distinct(A, nA), _inrange(A, nA, N), _inrange(B, nB, N), _subset(A, nA, B, nB)),
                                      And(nA <= nB, Implies(nA == nB, _subset(B, nB, A, nA)))),
      hints=lambda A, nA, B, nB, N: [_allx(lambda x: LEMMAS['L_subset_countle'](A, nA, B, nB, x)),
                                     LEMMAS['L_SumC_len'](A, nA, N), LEMMAS['L_SumC_len'](B, nB, N),
                                     LEMMAS['L_SumC_mono'](A, nA, B, nB, N), LEMMAS['L_SumC_eq'](A, nA, B, nB, N),
                                     _allb(lambda b: LEMMAS['L_count_subset'](A, nA, B, nB, N, b))])

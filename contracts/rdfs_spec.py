"""Specification vocabulary for reverse_dfs.py (C07): counting functions and their lemmas."""
from z3 import If, And, Or, Not, Implies, ForAll, Exists, IntVal, Int, Const
from pyvc.ty import *
from pyvc.engine import spec, SPEC, LEMMAS
from pyvc.lemmas import lemma

LI = LIST(INT)
PII = TUP(INT, INT)
LP = LIST(PII)
NS = LIST(TRANS)
TL = LIST(NS)

# CountI(L, n, x): occurrences of x among the first n elements of an int list; CountP: same for int pairs;
# CountT(ns, v, n): transitions to v among the first n transitions of one state
CountI = spec('CountI', [LI, INT, INT], INT)
SPEC['CountI']['unfold'] = lambda L, n, x: CountI(L, n, x) == If(n <= 0, IntVal(0), CountI(L, n - 1, x) + If(L_arr(L, LI)[n - 1] == x, 1, 0))
CountP = spec('CountP', [LP, INT, PII], INT)
SPEC['CountP']['unfold'] = lambda L, n, x: CountP(L, n, x) == If(n <= 0, IntVal(0), CountP(L, n - 1, x) + If(L_arr(L, LP)[n - 1] == x, 1, 0))
CountT = spec('CountT', [NS, INT, INT], INT)
SPEC['CountT']['unfold'] = lambda ns, v, n: CountT(ns, v, n) == If(n <= 0, IntVal(0), CountT(ns, v, n - 1) + If(t_tgt(L_arr(ns, NS)[n - 1]) == v, 1, 0))


def _allk(n_, body, nm='k!c'):
    k = Int(nm)
    return ForAll([k], Implies(And(0 <= k, k < n_), body(k)))


def _exk(n_, body, nm='k!e'):
    k = Int(nm)
    return Exists([k], And(0 <= k, k < n_, body(k)))


# counts only look at the prefix
lemma('L_CountI_ext', [('A', LI), ('B', LI), ('n', INT), ('x', INT)], lambda A, B, n, x: Implies(_allk(n, lambda k: L_arr(A, LI)[k] == L_arr(B, LI)[k]), CountI(A, n, x) == CountI(B, n, x)), ind='n')
lemma('L_CountP_ext', [('A', LP), ('B', LP), ('n', INT), ('x', PII)], lambda A, B, n, x: Implies(_allk(n, lambda k: L_arr(A, LP)[k] == L_arr(B, LP)[k]), CountP(A, n, x) == CountP(B, n, x)), ind='n')
# a count is positive exactly when the element occurs
lemma('L_CountI_mem', [('A', LI), ('n', INT), ('x', INT)], lambda A, n, x: And(CountI(A, n, x) >= 0, (CountI(A, n, x) > 0) == _exk(n, lambda k: L_arr(A, LI)[k] == x)), ind='n')
lemma('L_CountT_mem', [('ns', NS), ('v', INT), ('n', INT)], lambda ns, v, n: And(CountT(ns, v, n) >= 0, (CountT(ns, v, n) > 0) == _exk(n, lambda k: t_tgt(L_arr(ns, NS)[k]) == v)), ind='n')
lemma('L_CountP_mem', [('A', LP), ('n', INT), ('x', PII)], lambda A, n, x: And(CountP(A, n, x) >= 0, (CountP(A, n, x) > 0) == _exk(n, lambda k: L_arr(A, LP)[k] == x)), ind='n')


def _inI(x, F):
    k = Int('k!in')
    return Exists([k], And(0 <= k, k < L_len(F, LI), L_arr(F, LI)[k] == x))


# FilterNotIn(V, F, i): the elements V[k], k < i, that are not in F, in order
FilterNotIn = spec('FilterNotIn', [LI, LI, INT], LI)
SPEC['FilterNotIn']['unfold'] = lambda V, F, i: FilterNotIn(V, F, i) == If(i <= 0, empty(LI), If(Not(_inI(L_arr(V, LI)[i - 1], F)), L_app(FilterNotIn(V, F, i - 1), LI, L_arr(V, LI)[i - 1]), FilterNotIn(V, F, i - 1)))
lemma('L_FNI_len', [('V', LI), ('F', LI), ('i', INT)], lambda V, F, i: And(L_len(FilterNotIn(V, F, i), LI) >= 0, L_len(FilterNotIn(V, F, i), LI) <= i), ind='i')
lemma('L_FNI_count', [('V', LI), ('F', LI), ('i', INT), ('x', INT)],
      lambda V, F, i, x: CountI(FilterNotIn(V, F, i), L_len(FilterNotIn(V, F, i), LI), x) == If(_inI(x, F), IntVal(0), CountI(V, i, x)), ind='i',
      hints=lambda V, F, i, x: [LEMMAS['L_FNI_len'](V, F, i - 1), LEMMAS['L_CountI_ext'](FilterNotIn(V, F, i), FilterNotIn(V, F, i - 1), L_len(FilterNotIn(V, F, i - 1), LI), x)])


def _distinct(L, n):
    a, b = Int('a!d'), Int('b!d')
    return ForAll([a, b], Implies(And(0 <= a, a < b, b < n), L_arr(L, LI)[a] != L_arr(L, LI)[b]))


def _le1(L, n):
    x = Int('x!d')
    return ForAll([x], CountI(L, n, x) <= 1)


lemma('L_distinct_le1', [('L', LI), ('n', INT), ('x', INT)], lambda L, n, x: Implies(_distinct(L, n), CountI(L, n, x) <= 1), ind='n',
      hints=lambda L, n, x: [LEMMAS['L_CountI_mem'](L, n - 1, x)])
lemma('L_CountI_step', [('L', LI), ('n', INT), ('x', INT)], lambda L, n, x: Implies(n >= 0, And(CountI(L, n + 1, x) == CountI(L, n, x) + If(L_arr(L, LI)[n] == x, 1, 0), CountI(L, n, x) >= 0)),
      hints=lambda L, n, x: [LEMMAS['L_CountI_mem'](L, n, x)])


def _allx(f):
    x = Int('x!q')
    return ForAll([x], f(x))


lemma('L_le1_distinct', [('L', LI), ('n', INT)], lambda L, n: Implies(_le1(L, n), _distinct(L, n)), ind='n',
      hints=lambda L, n: [LEMMAS['L_CountI_mem'](L, n - 1, L_arr(L, LI)[n - 1]), _allx(lambda x: LEMMAS['L_CountI_step'](L, n - 1, x))])
